#!/usr/bin/env python3
"""Generate /verif/MANIFEST.json from bin/props.py (claimed checks) and the N/A table below."""
import json, os, sys
V = os.path.dirname(os.path.dirname(os.path.abspath(__file__)))
sys.path.insert(0, os.path.join(V, "bin"))
from props import PROPS

NA = {
 "C06": "span round-trip is a pure function bytes -> rows -> span; no schedule, clock, fault or history enters it, and the read half needs ClickHouse to select the rows, which nothing in a simulation executes",
 "C07": "(query, window, data) -> rows is decided only by executing the generated SQL; the simulated ClickHouse does not interpret SQL and no interleaving or fault affects the translation",
 "C08": "same as C07: aggregate values of generated SQL need a SQL interpreter, not a simulator",
 "C10": "pure property of string escaping over inputs; nothing temporal, concurrent or faulty to simulate",
 "C11": "same as C07 for TraceQL",
 "C13": "pure property of every generated WHERE clause over programs/windows/configurations, needs SQL execution; only the writer-date versus reader-bound slice is covered, inside C04",
 "C16": "pure functions pprof -> tree and trees -> flame graph; merge order is an input permutation, not a schedule",
 "C17": "pure translation plus a sequential cursor API; no concurrent or faulty behaviour to own",
 "C20": "pure function (route table, headers) -> status; no state shared between requests, no timing",
}
PENDING = {}
all_ids = [json.loads(l)["id"] for l in open(os.path.join(V, "properties.jsonl"))]
checks = []
for pid in all_ids:
    if pid not in PROPS:
        continue
    c = PROPS[pid]
    checks.append({
        "property_id": pid,
        "quick_cmd": "bin/check %s --tier quick" % pid,
        "thorough_cmd": "bin/check %s --tier thorough" % pid,
        "evidence_file": "/verif/evidence/%s.json" % pid,
        "replay_cmd_template": "bin/check %s --replay {path}" % pid,
        "engine": c.get("engine", "sim"),
        "level_claimed": {"category": c["level"], "text": c["level_text"], "design_ref": c.get("design_ref", "")},
        "level_note": c["level_note"],
        "technique": c["technique"],
    })
na = []
for pid in all_ids:
    if pid in PROPS:
        continue
    if pid in NA:
        na.append({"property_id": pid, "reason": "not applicable to deterministic simulation: " + NA[pid]})
    else:
        na.append({"property_id": pid, "reason": PENDING.get(pid, "planned in DESIGN.md; its simulation scenario is not built yet, so it is not claimed")})
m = {
 "version": 1,
 "setup_cmd": "bin/setup",
 "hooks": {
  "guard": "verif",
  "enable": "checks copy /repo's working tree to a scratch directory under /var/tmp, add the simulator packages as zz_verif/, rewrite the copy with sim/cmd/instr (AST-inserted scheduler yields) where the scenario needs schedule control, and build with `go test -c -tags verif` (go1.26.8, GOFLAGS=-mod=mod GOPROXY=off); nothing guarded lives in /repo itself",
  "baseline_off_cmd": "cd /repo && go test -mod=mod -vet=off -count=1 -timeout 25m ./...",
  "source_commits": [],
  "add_only": True,
 },
 "engines": [
  {"name": "sim", "path": "/verif/sim", "serves_properties": [c["property_id"] for c in checks],
   "kind_free_text": "deterministic simulation with fault injection: real qryn code on simulated ClickHouse faces, seeded (rapid) scenario/fault/schedule generation, shrinking, replay files"},
 ],
 "checks": checks,
 "not_applicable": na,
 "notes": "exit 0 = held; exit 1 + VIOLATION line = violation reproduced from its replay file in a fresh process; exit 2 = harness/build trouble. Known findings: /verif/known_findings.json.",
}
json.dump(m, open(os.path.join(V, "MANIFEST.json"), "w"), indent=1)
print("checks:", [c["property_id"] for c in checks], "na:", [n["property_id"] for n in na])
