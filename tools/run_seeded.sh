#!/bin/bash
# tools/run_seeded.sh <mutant-name> <prop> [extra bin/check args]: run the check of <prop> against metrico/qryn with the seeded change
# seeded/<name>/patch.diff (or /tmp/mut/<name>/MUTANT/patch.diff) applied. The change is applied to a scratch copy of /repo's working
# tree (VERIF_REPO), not to /repo itself, so that a check running elsewhere at the same time never builds a tree with a seeded change in it.
N=$1; P=$2; shift 2
PATCH=/verif/seeded/$N/patch.diff; [ -f $PATCH ] || PATCH=/tmp/mut/$N/MUTANT/patch.diff
R=/var/tmp/seeded-repo-$N-$$
rm -rf $R; mkdir -p $R; rsync -a --exclude .git /repo/ $R/ || exit 2
(cd $R && git init -q . 2>/dev/null && git apply $PATCH) || { echo "PATCH-FAILED $N"; rm -rf $R; exit 2; }
rm -rf $R/.git
VERIF_REPO=$R VERIF_SCRATCH=/var/tmp/verif-scratch-seeded-$N-$$ /verif/bin/check $P --no-evidence "$@" > /tmp/seeded-$N-$P.log 2>&1; RC=$?
rm -rf $R /var/tmp/verif-scratch-seeded-$N-$$
echo "SEEDED $N $P exit=$RC $(grep -c '^VIOLATION' /tmp/seeded-$N-$P.log) violations; $(grep '^violated' /tmp/seeded-$N-$P.log | head -2 | cut -c1-300)"
