#!/bin/bash
# tools/run_seeded.sh <mutant-name> <prop> [extra bin/check args]: apply seeded/<name>/patch.diff (or /tmp/mut/<name>/MUTANT/patch.diff) to /repo, run the check, undo.
N=$1; P=$2; shift 2
PATCH=/verif/seeded/$N/patch.diff; [ -f $PATCH ] || PATCH=/tmp/mut/$N/MUTANT/patch.diff
git -C /repo apply $PATCH || { echo "PATCH-FAILED $N"; exit 2; }
/verif/bin/check $P --no-evidence "$@" > /tmp/seeded-$N-$P.log 2>&1; RC=$?
git -C /repo checkout -- .
echo "SEEDED $N $P exit=$RC $(grep -c '^VIOLATION' /tmp/seeded-$N-$P.log) violations; $(grep '^violated' /tmp/seeded-$N-$P.log | head -2 | cut -c1-300)"
