#!/usr/bin/env python3
"""Determinism self-test: run the same worker seed several times in separate processes, at several GOMAXPROCS and GC settings,
and compare the multiset of per-run trace hashes (grant sequences + block counts).
usage: tools/determinism.py <prop> [nseeds] [checks]"""
import json, os, subprocess, sys
sys.path.insert(0, '/verif/bin')
from props import PROPS
import importlib.util, importlib.machinery
loader = importlib.machinery.SourceFileLoader('check', '/verif/bin/check')
spec = importlib.util.spec_from_loader('check', loader)
chk = importlib.util.module_from_spec(spec); loader.exec_module(chk)
prop = sys.argv[1]; nseeds = int(sys.argv[2]) if len(sys.argv) > 2 else 10; checks = int(sys.argv[3]) if len(sys.argv) > 3 else 15
cfg = PROPS[prop]
scratch = '/var/tmp/verif-scratch/determinism-' + prop
tree, binp, _ = chk.build(prop, cfg, scratch)
wd = os.path.join(tree, 'zz_verif', cfg['pkg'])
bad = 0
total = 0
for seed in range(1, nseeds + 1):
    results = {}
    procs = []
    for gmp, gogc in ((1, '100'), (1, '10'), (4, '100'), (16, 'off')):
        env = chk.goenv(); env['GOMAXPROCS'] = str(gmp); env['GODEBUG'] = 'asyncpreemptoff=1'; env['GOGC'] = gogc
        env['VERIF_PROPERTY'] = prop; env['VERIF_KNOWN'] = '/verif/known_findings.json'
        out = os.path.join(scratch, 'd-%d-%d-%d.json' % (seed, gmp, len(procs)))
        env['VERIF_OUT'] = out
        p = subprocess.Popen(chk.worker_cmd(binp, cfg, seed * 7919, checks, '1s'), cwd=wd, env=env, stdout=subprocess.DEVNULL, stderr=subprocess.DEVNULL)
        procs.append((gmp, out, p))
    sigs = []
    for gmp, out, p in procs:
        p.wait()
        try:
            r = json.load(open(out))
            sigs.append((gmp, r['runs'], tuple(r['hashes']), r.get('steps')))
        except Exception as e:
            sigs.append((gmp, -1, (), str(e)))
    total += 1
    base = sigs[0]
    for s in sigs[1:]:
        if s[1:] != base[1:]:
            bad += 1
            print('MISMATCH seed=%d: GOMAXPROCS=%d runs=%d hashes=%d steps=%s  vs  GOMAXPROCS=%d runs=%d hashes=%d steps=%s; differing hashes=%d' % (
                seed, base[0], base[1], len(base[2]), base[3], s[0], s[1], len(s[2]), s[3], len(set(base[2]) ^ set(s[2]))))
            break
print('determinism %s: %d seeds x 4 processes (GOMAXPROCS/GOGC 1/100, 1/10, 4/100, 16/off), %d checks each: %d mismatching seeds' % (prop, total, checks, bad))
import shutil; shutil.rmtree(scratch, ignore_errors=True)
sys.exit(1 if bad else 0)
