#!/bin/bash
# tools/verify_mutant.sh <name e.g. C18a> : confirm a sub-agent's mutant in a fresh worktree of /repo HEAD and archive it in /verif/seeded/<name>/
# (1) patch applies, tree builds, existing suite passes; (2) demo fails with the patch; (3) demo passes without it.
set -u
N=$1; SRC=/tmp/mut/$N/MUTANT; WT=/tmp/vm/$N
export GOFLAGS=-mod=mod GOPROXY=off GOSUMDB=off GOTOOLCHAIN=local PATH=/opt/veriftools/go1.26.8/bin:$PATH
mkdir -p /tmp/vm; git -C /repo worktree remove --force $WT 2>/dev/null; rm -rf $WT
git -C /repo worktree add --detach $WT ${BASE:-HEAD} >/dev/null 2>&1 || exit 2
cd $WT; mkdir MUTANT; cp -r $SRC/* MUTANT/
DEMO=$(python3 -c "import json;print(json.load(open('MUTANT/meta.json'))['demo_cmd'].replace('/tmp/mut/$N','$WT'))")
res() { echo "RESULT $N $1"; }
git apply MUTANT/patch.diff || { res "patch-does-not-apply"; exit 1; }
B=$(go build ./... 2>&1 | grep -v "^#" | grep -v "unmarshal/legacy\|writer/http" | head -5)
[ -n "$B" ] && { echo "$B"; res "build-fails"; exit 1; }
PKGS=$(go list ./... 2>/dev/null | grep -v "/MUTANT")
T=$(go test -vet=off -count=1 $PKGS 2>&1 | grep -v "no test files" | grep "^FAIL\|^---" | grep -v "unmarshal/legacy\|writer/http\|qryn/MUTANT\|^FAIL$")
[ -n "$T" ] && { echo "$T"; res "suite-fails-with-mutant"; exit 1; }
bash -c "$DEMO" > /tmp/vm/$N.with.log 2>&1; W=$?; grep -q "^--- FAIL\|^FAIL" /tmp/vm/$N.with.log && W=1
git apply -R MUTANT/patch.diff
bash -c "$DEMO" > /tmp/vm/$N.without.log 2>&1; O=$?; grep -q "^--- FAIL\|^FAIL" /tmp/vm/$N.without.log && O=1
echo "demo with mutant exit=$W; without exit=$O"
if [ $W -ne 0 ] && [ $O -eq 0 ]; then
  D=/verif/seeded/$N; rm -rf $D; mkdir -p $D; cp MUTANT/patch.diff $D/; cp -r MUTANT/demo $D/demo
  python3 - <<PY
import json
m=json.load(open('MUTANT/meta.json'))
m['verified']={'by':'tools/verify_mutant.sh in a fresh worktree of /repo HEAD','base_commit':'$(git -C /repo rev-parse --short ${BASE:-HEAD})','build':'ok','existing_suite_with_change':'pass','demo_with_change':'fails (exit $W)','demo_without_change':'passes'}
json.dump(m,open('$D/meta.json','w'),indent=1)
PY
  res "confirmed"
else
  tail -5 /tmp/vm/$N.with.log /tmp/vm/$N.without.log; res "demo-not-discriminating"
fi
cd /; git -C /repo worktree remove --force $WT
