#!/usr/bin/env python3
"""Print the prompt given to a fresh sub-agent that is asked to break one property.
The agent receives only the property text and a scratch worktree path."""
import json, sys
pid, wt = sys.argv[1], sys.argv[2]
extra = sys.argv[3] if len(sys.argv) > 3 else ""
p = None
for l in open('/verif/properties.jsonl'):
    r = json.loads(l)
    if r['id'] == pid:
        p = r
assert p
print(f"""You are helping test a verification effort for the Go project metrico/qryn (an observability backend that ingests Loki/Prometheus/Tempo/Pyroscope data into ClickHouse and transpiles LogQL/PromQL/TraceQL into ClickHouse SQL).

Your own scratch git worktree of the repository is at: {wt}
Work ONLY inside that directory (never touch /repo or /verif, and do not read anything under /verif). 

Here is a semantic property that the code base is supposed to satisfy:

PROPERTY {p['id']}: {p['title']}
STATEMENT: {p['statement']}
QUANTIFIER: {p['quantifier']['text']}
CODE ANCHORS (files): {', '.join(p['anchors']['files'])}
MECHANISMS MEANT TO MAKE IT HOLD: {json.dumps(p['anchors'].get('mechanism', []))}

YOUR TASK: produce ONE realistic change (a plausible bug a developer could introduce: a refactoring slip, a wrong condition, a moved statement, a lost lock, a missing guard, an off-by-one, a changed order of two operations...) to the NON-TEST source code of the repository in your worktree that BREAKS this property, while
  (1) the repository still compiles, and
  (2) the existing test suite still passes, and
  (3) the breakage needs something specific to manifest — a particular interleaving, a crash or fault at a particular point, a multi-step sequence of operations, an unusual input or configuration, or two cooperating sites that each look fine alone — NOT something ordinary use would expose at once (e.g. do not simply make every request fail).
{extra}
Also write a DEMONSTRATION: a Go test file (or small program) placed in the worktree that FAILS with your change and PASSES without it (on the original code). The demonstration may use fakes for the ClickHouse connection interfaces (the code has seams: writer ch_wrapper.IChClient / IChClientFactory, reader model.ISqlxDB, ctrl functions take a clickhouse.Conn). Keep it deterministic if you can.

Environment (sealed sandbox, NO network): prefix every shell command with
  export GOFLAGS=-mod=mod GOPROXY=off GOSUMDB=off GOTOOLCHAIN=local PATH=/opt/veriftools/go1.26.8/bin:$PATH
and use that `go` (go1.26.8). Build with `go build ./... ` — NOTE two packages (reader/utils/unmarshal/legacy and writer/http) fail to build even on the original tree; ignore those two. The existing test suite is `go test -vet=off -count=1 ./...` run in the worktree root (again ignoring those two pre-existing failing packages; E2E tests skip without a database).

Deliverables, all inside your worktree:
  - your source change left applied in the working tree (do NOT commit); 
  - `MUTANT/patch.diff` : output of `git diff` restricted to the non-test source change only (not the demo);
  - `MUTANT/demo/` : the demonstration test file(s) plus a `README.md` saying exactly where to copy each file and the exact command to run it, and what output to expect with and without the change;
  - `MUTANT/meta.json` : {{"property": "{p['id']}", "summary": "...", "needs_to_manifest": "...", "files_changed": [...], "demo_cmd": "..."}}.
Verify yourself before finishing: (a) with the change: build OK, existing tests pass, demo FAILS; (b) remove the source change with `git apply -R MUTANT/patch.diff` (keep the demo): demo PASSES; then restore it with `git apply MUTANT/patch.diff`. NEVER use `git stash` (the stash is shared with other worktrees of this repository and other people use it concurrently). Report briefly what you changed and the verification results. Do not make more than one logical change.""")
