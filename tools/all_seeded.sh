#!/bin/bash
# tools/all_seeded.sh [extra bin/check args]: run every archived seeded change against the check of its property (quick tier); one line each.
cd /verif
for id in $(ls seeded); do
  P=$(echo $id | cut -c1-3)
  B=$(python3 -c "import json;print(json.load(open('seeded/$id/meta.json')).get('apply_base',''))")
  if [ -n "$B" ]; then echo "SKIP $id (applies to $B only)"; continue; fi
  tools/run_seeded.sh $id $P "$@" 2>/dev/null | grep "^SEEDED\|^PATCH" | head -1 | cut -c1-260
done
