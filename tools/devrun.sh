#!/bin/bash
# tools/devrun.sh <pkg> <test> <prop> <checks> [extra args]: build the scenario in the dev scratch tree (instrumented) and run one worker
export GOFLAGS=-mod=mod GOPROXY=off GOSUMDB=off GOTOOLCHAIN=local PATH=/opt/veriftools/go1.26.8/bin:$PATH
S=/var/tmp/verif-scratch/dev
if [ ! -d $S/tree ] || [ -n "$FRESH" ]; then
  rm -rf $S; mkdir -p $S/tree; rsync -a --exclude .git ${VERIF_REPO:-/repo}/ $S/tree/
  (cd /verif/sim/cmd/instr && go build -o $S/instr .) || exit 2
  rsync -a --exclude cmd /verif/sim/ $S/tree/zz_verif/
  (cd $S/tree && go mod edit -require=pgregory.net/rapid@v1.3.0 -go=1.25 -toolchain=none && $S/instr -root $S/tree ./writer/... ./reader/... | tail -1) || exit 2
fi
rsync -a --exclude cmd /verif/sim/ $S/tree/zz_verif/
PKG=$1; TEST=$2; PROP=$3; N=$4; shift 4
OV=$(/verif/tools/mkoverlay.py $S/ovl) || exit 2
(cd $S/tree && go test -c -trimpath -tags "verif verifrand" -overlay $OV -o $S/$PKG.test ./zz_verif/$PKG) || exit 2
cd $S/tree/zz_verif/$PKG && GODEBUG=asyncpreemptoff=1 GOMAXPROCS=1 VERIF_KNOWN=/verif/known_findings.json VERIF_PROPERTY=$PROP VERIF_OUT=$S/out-$PROP.json timeout -s QUIT ${TMO:-600} $S/$PKG.test -test.run "^$TEST\$" -rapid.checks=$N -rapid.nofailfile -rapid.shrinktime=${SHRINK:-30s} "$@" > $S/run-$PROP.log 2>&1
python3 - <<PY
import json
r=json.load(open('$S/out-$PROP.json'))
print('runs',r['runs'],'wall',round(r['wall_seconds'],1),'harness_error',r.get('harness_error'),'known',r.get('known'))
for f in r['failures'] or []:
    print(json.dumps(f['violation'])[:2500])
    json.dump(f,open('$S/fail-$PROP.json','w'))
PY
