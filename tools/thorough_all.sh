#!/bin/bash
# run the thorough tier of every claimed property once (sequentially), with the given seed and worker count
SEED=${1:-11}; W=${2:-8}; BUDGET=${3:-600}
cd "$(dirname "$0")/.."
for p in C18 C19 C01 C02 C03 C04 C05 C12 C15 C14 C09; do
  echo "=== $p $(date +%T)"; VERIF_SEED=$SEED bin/check $p --tier thorough --workers $W --budget $BUDGET --seed $SEED 2>&1 | grep -v "^\s" | cut -c1-1500 | tail -8
done
