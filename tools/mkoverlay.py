#!/usr/bin/env python3
"""tools/mkoverlay.py <dir>: write a `go build -overlay` file into <dir> that replaces two files of the Go runtime
(in the build only - GOROOT is not touched):
  runtime/rand.go  rand() - the source of map hash seeds, map iteration offsets, select-order seeds and math/rand
                   auto-seeding - becomes a deterministic sequence (splitmix64) that the simulator re-seeds at
                   the start of every simulated run through runtime.verifSetRand (linkname, zz_verif/simrt);
                   runtime.verifGoid returns the current goroutine id (cheap identity for the baton check)
  runtime/alg.go   the process-wide hash keys are constants (per-map seeds still vary through rand())
  runtime/malloc.go  mallocgcLarge notes the size of the largest single allocation (above 32 KiB) since the last call of
                   runtime.verifMaxAlloc (linkname): the simulator's view of the allocator, so that a few bytes on the
                   wire that make the server reserve gigabytes are seen without having to run out of memory
Without this, qryn's `for k := range someMap` makes schedules and failures depend on an order the simulator does
not control, and a replay file does not replay. Prints the overlay path; exits 3 if the toolchain's sources do not
look as expected (the caller then builds without overlay and simrt's seeding hook is compiled out)."""
import json, os, subprocess, sys

def main():
    d = os.path.abspath(sys.argv[1])
    os.makedirs(d, exist_ok=True)
    gr = subprocess.run(["go", "env", "GOROOT"], capture_output=True, text=True).stdout.strip()
    rp, ap, mp = gr + "/src/runtime/rand.go", gr + "/src/runtime/alg.go", gr + "/src/runtime/malloc.go"
    try:
        r, a, m = open(rp).read(), open(ap).read(), open(mp).read()
        head = "func mallocgcLarge(size uintptr, typ *_type, needzero bool) (unsafe.Pointer, uintptr) {\n"
        assert m.count(head) == 1
        m = m.replace(head, head + "\tif size > verifLargest {\n\t\tverifLargest = size\n\t}\n", 1)
        m += '''
var verifLargest uintptr

// verifMaxAlloc returns the size of the largest single allocation since its last call (zz_verif/simrt, linkname).
//
//go:linkname verifMaxAlloc
func verifMaxAlloc() uintptr { n := verifLargest; verifLargest = 0; return n }
'''
        i, j = r.index("func rand() uint64 {"), r.index("//go:linkname maps_rand")
        new = '''func rand() uint64 {
	// verif: deterministic sequence, re-seeded by the simulator at the start of every simulated run
	x := atomic.Xadd64(&verifRand, -0x61C8864680B583EB)
	x ^= x >> 30
	x *= 0xBF58476D1CE4E5B9
	x ^= x >> 27
	x *= 0x94D049BB133111EB
	x ^= x >> 31
	return x
}

var verifRand uint64 = 0x5EED

// verifSetRand is pulled by the simulator (zz_verif/simrt) via linkname.
//
//go:linkname verifSetRand
func verifSetRand(seed uint64) { atomic.Store64(&verifRand, seed) }

// verifGoid gives the simulator a cheap goroutine identity (it otherwise parses runtime.Stack output).
//
//go:linkname verifGoid
func verifGoid() uint64 { return getg().goid }

'''
        r = r[:i] + new + r[j:]
        imp = '\t"internal/goarch"\n'
        assert imp in r and '"internal/runtime/atomic"' not in r
        r = r.replace(imp, imp + '\t"internal/runtime/atomic"\n', 1)
        k1, k2 = "\t\thashkey[i] = uintptr(bootstrapRand())", "\t\tkey[i] = bootstrapRand()"
        assert k1 in a and k2 in a
        a = a.replace(k1, "\t\thashkey[i] = uintptr(0x9E3779B97F4A7C15 * uint64(i+1))")
        a = a.replace(k2, "\t\tkey[i] = 0x9E3779B97F4A7C15 * uint64(i+1)")
    except (OSError, ValueError, AssertionError) as e:
        print("unexpected runtime sources: %r" % (e,), file=sys.stderr)
        sys.exit(3)
    open(d + "/rand.go", "w").write(r)
    open(d + "/alg.go", "w").write(a)
    open(d + "/malloc.go", "w").write(m)
    json.dump({"Replace": {rp: d + "/rand.go", ap: d + "/alg.go", mp: d + "/malloc.go"}}, open(d + "/overlay.json", "w"))
    print(d + "/overlay.json")

main()
