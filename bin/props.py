"""Per-property configuration of bin/check."""

CTRL_COMPONENTS = {
    "real": ["ctrl/qryn/maintenance.Update, updateScripts, getSQLFile, Cleanup", "ctrl/qryn/maintenance.Rotate, rotateTables, storagePolicyUpdate, getSetting, putSetting",
             "embedded migration scripts ctrl/qryn/sql/*.sql", "text/template rendering"],
    "stub": ["ClickHouse: DDL face (zz_verif/ddl) - catalogue model + ver/settings rows, per-statement fault injection"],
    "not_simulated": ["ctrl.Init/ConnectV2 dialling, InitDB (CREATE DATABASE)", "ON CLUSTER partial application on some replicas only"],
}

DDL_TRUST = [
    "CREATE TABLE/VIEW/MATERIALIZED VIEW without IF NOT EXISTS on an existing name is an error; with it a no-op",
    "a (materialized) view needs its source table, and its TO target, to exist; bare column names in its select list must be columns of the source",
    "DROP TABLE IF EXISTS on a missing table is a no-op",
    "RENAME TABLE on a missing source is an error unless IF EXISTS; onto an existing target is an error",
    "ALTER TABLE on a missing table is an error; ADD COLUMN of an existing column is an error unless IF NOT EXISTS; the actions of one ALTER apply atomically",
    "MODIFY SETTING / MODIFY TTL replace the stored value; a storage policy with an empty name does not exist",
    "a statement either applies completely or not at all; a crash loses everything except the applied statements",
    "max(ver) over no rows is 0; argMax(value, inserted_at) returns the value of the latest row of that fingerprint",
    "any statement form not listed makes the check exit 2 instead of guessing",
]

INGEST_COMPONENTS = {
    "real": ["writer: mux router + every ingest route, middleware chain (WithOverallContextMiddleware, unsnappy, parser context)", "all decoders in writer/utils/unmarshal (Loki JSON/protobuf, remote-write, Influx, Datadog logs/metrics, OTLP logs/traces, Zipkin JSON/ndjson)",
             "controller doParse/doPush, retry-go, promise", "InsertServiceV2 / RoundRobin / Multimodal for all six tables, column pools", "fingerprint/day cache (fastcache + 30 min reset ticker), static service registry, CreateStaticServiceRegistry wiring (OnBeforeInsert)",
             "Go runtime timers/contexts on the fake clock of testing/synctest"],
    "stub": ["ClickHouse insert face (zz_verif/chfake): decodes every block, rejects non-rectangular blocks like the server, injects per-INSERT/ping/connect faults"],
    "not_simulated": ["net/http server loop and sockets (handlers are entered at router.ServeHTTP)", "QrynWriterPlugin.Initialize (dials sockets, health checks)", "process watchdog os.Exit is defused after the real wiring started it", "pprof /ingest and Elastic routes are only driven with hostile bodies (C05)"],
    "scheduler": "baton scheduler over AST-inserted yields (sim/cmd/instr): every go statement, mutex operation, blocking channel statement and receive-only select of writer/ and reader/ is a scheduling point decided from the seeded tape; function entries and loop bodies are preemption points, a seeded per-site plan turns about one visit in 5/40/400 (or none) into a scheduling point, more often inside qryn's own critical sections",
    "runtime": "Go 1.26.8 runtime with three files replaced at build time (go -overlay, tools/mkoverlay.py): runtime.rand - map hash seeds, map iteration offsets, select seeds, math/rand auto-seed - is a sequence re-seeded by the simulator at every run start and every grant; hash keys are constants; goroutine ids are exported for the baton check; mallocgcLarge notes the largest single allocation (the simulator's view of the allocator, C05 allocation-bomb oracle)",
}

INGEST_TRUST = ["the insert face applies a block iff Do returns nil (or the fault kind is error-after-apply)", "a block whose columns disagree on the row count is rejected",
                "synctest's fake clock and quiescence detection", "unmanaged stretches (inside dependencies) run under the single-P runtime order until they re-enter qryn code, where they queue for the baton",
                "the two overlaid runtime files change where randomness comes from, not what maps, select or the scheduler do"]


def ingest(pid, technique, level_text, level_note, rule, probes, stall=False, quick_checks=200, design_ref=""):
    return {
        "pkg": "ingestsim", "test": "TestIngest", "instrument": True, "instr_pkgs": ["./writer/...", "./reader/..."], "level": "exploration",
        "quick": {"workers": 16, "checks": quick_checks, "shrink": "45s", "worker_timeout": 1500},
        "thorough": {"workers": 16, "checks": 400, "shrink": "120s", "budget": 1500, "worker_timeout": 3000},
        "technique": technique, "level_text": level_text, "level_note": level_note, "rule": rule, "probes": probes,
        "components": INGEST_COMPONENTS, "trusted_base": INGEST_TRUST, "stall_is_violation": stall, "stall_timeout": 90, "design_ref": design_ref,
        "assumptions": ["ack = first status byte written by the handler; durable = Do returned nil before that event (global event order)"],
    }


INGEST_RULE = ("a case is one seeded run of the whole writer in a synctest bubble: 1-4 concurrent clients x 1-5 pushes over 13 wire protocols, swarm configuration "
               "(flush interval, queue size, parallel workers, retries, write timeout, cluster mode, time zone, start instant), a per-INSERT/ping/connect fault plan that stops at a heal instant, "
               "body fragmentation, a schedule tape + seed consumed by the baton scheduler, a preemption rate (off, 1/5, 1/40, 1/400 of the visited function entries and loop bodies) and the seed of the runtime's map-iteration order. Non-trivial = a fault fired or the scheduler had at least one decision with >= 2 runnable goroutines; "
               "distinct = distinct hash of the grant sequence projected to (goroutine role, site) + number of INSERT blocks.")

PROPS = {
    "C01": ingest("C01", "deterministic simulation: baton-scheduled real writer on a fault-injecting ClickHouse stub; ack ledger oracle over the recorded history, bounded-progress oracle after the last fault",
                  "Seeded exploration of interleavings of concurrent pushes with timer/size/forced flushes and of per-INSERT outcomes; every 2xx is checked against the log of successful INSERT blocks ordered by global event numbers, every request must be answered exactly once within a configuration-derived bound after faults stop. Sampling, not enumeration.",
                  "schedule points are the instrumented synchronisation operations plus seeded preemption points at function entries and loop bodies (not inside single statements); rows are attributed by run-unique tags; one or two independent ClickHouse nodes, never a cluster of replicas", INGEST_RULE,
                  ["request-arrived-while-insert-in-flight", "insert-failed", "reconnect-refused-then-accepted", "request-answered-5xx", "request-answered-2xx"], design_ref="DESIGN.md §4 C01"),
    "C02": ingest("C02", "deterministic simulation: every INSERT block observed at the ClickHouse boundary is decoded and checked row by row against the submitted body models; the outcome reported to a request is checked against the blocks that carried its rows",
                  "Same runs as C01; every block must be rectangular, every row must be exactly one submitted row with all fields from that row, no row twice in a block. Row shapes include empty streams, >1000 points, >1 MiB chunks.",
                  "profiles tables: only row counts are interpreted", INGEST_RULE,
                  ["request-parsed-into-several-chunks", "request-arrived-while-insert-in-flight", "insert-failed"], design_ref="DESIGN.md §4 C02"),
    "C03": ingest("C03", "deterministic simulation: conservation oracle - multiset of rows in successful blocks attributed to an acknowledged request equals the entries the generator put in its body",
                  "For every acknowledged request of every log/metric protocol the rows in successful blocks are compared with the body model (timestamp, line/value, type, one fingerprint per stream); in fault-free runs every well-formed body must be acknowledged. The input space is sampled; body fragmentation, chunk thresholds, concurrent pushes and retries are simulated.",
                  "the input quantifier is sampled by the generator; expected sample types follow the wire format (line only = log, value only = metric, both = undefined)", INGEST_RULE,
                  ["request-parsed-into-several-chunks", "request-answered-2xx", "client-retried-after-5xx", "acked-loki-json", "acked-loki-json-entries", "acked-loki-proto", "acked-prom-rw", "acked-influx", "acked-datadog-logs", "acked-datadog-metrics", "acked-otlp-logs", "acked-zipkin", "acked-zipkin-nd", "acked-otlp-traces", "acked-pprof", "acked-pprof-multipart", "acked-elastic-bulk", "acked-elastic-doc"], design_ref="DESIGN.md §4 C03"),
    "C04": ingest("C04", "deterministic simulation of request histories across days, cache resets, failed series inserts, time zones; oracle = durable (fingerprint,type,day) index state at ack time versus the reader's own date bound",
                  "Histories of pushes of recurring label sets over simulated time (30-minute cache reset, midnight crossings, five process time zones) with series/sample insert faults; at every ack each sample needs a successfully inserted series row of its type under a day the reader searches (lower bound taken from the tree's FormatFromDate). Fingerprint = function of the label set and label document = JSON of the set are checked over all rows of the run (sampled inputs).",
                  "hash half of the property is only sampled; clustered mode skips the cache by design and is excluded from the index oracle", INGEST_RULE,
                  ["zone-west-of-utc", "zone-east-of-utc", "insert-failed"], design_ref="DESIGN.md §4 C04"),
    "C05": ingest("C05", "deterministic simulation with hostile clients mixed into honest traffic on every ingest route; oracles: one response in bounded simulated time, no unrecovered panic in any goroutine, no livelock (scheduler step bound, loop-iteration bound, wall-clock watchdog), goroutine census after quiescence, lock discipline of shared Go maps",
                  "Truncated/bit-flipped/random/empty/badly-compressed/mis-typed/mis-routed bodies and extreme parameters are interleaved with honest pushes; the simrt.Go wrapper sees panics net/http would not, the census follows spawn ancestry, a goroutine that spins inside uninstrumented code is caught by the driver's wall-clock watchdog and attributed to its scenario.",
                  "input space sampled by mutation recipes; a stall inside uninstrumented code is detected by wall clock (60-90 s), not by the step counter", INGEST_RULE,
                  ["request-answered-5xx", "request-answered-2xx", "largest-single-allocation-observed"], stall=True, design_ref="DESIGN.md §4 C05"),
}
PROPS["C05"]["known_probes"] = ["findings/C05-influx-stream-parser-spins.json", "findings/C05-gzip-body-inflated-without-bound.json"]
PROPS_C15_PROBE = "findings/C15-in-process-log-query-over-3000-entries-splits-streams.json"
PROPS["C05"]["stall_timeout"] = 60
PROPS["C05"]["crash_is_violation"] = True

READ_COMPONENTS = {
    "real": ["reader: mux router with every read route (Loki, Prometheus, Tempo, Pyroscope), controllers, services", "LogQL/TraceQL/PromQL/profile transpilers, ClickhouseGetterPlanner Scan/ScanMatrix, internal_planner stage goroutines, step post-processors",
             "streaming JSON encoders, dbVersion cache, StableSqlxDBWrapper, database/sql connection pool", "prometheus promql engine on the CLokiQueriable storage adapter"],
    "stub": ["ClickHouse query face (zz_verif/sqlfake): database/sql driver that never interprets SQL; serves scripted typed result sets by projection column name; injects connect/query errors, error or stall at row k, latencies"],
    "not_simulated": ["net/http server loop, websocket upgrade of /tail (Tail is driven at the service level)", "the content of SQL (nothing executes it)"],
    "scheduler": "baton scheduler over AST-inserted yields and seeded preemption points, as for the writer",
    "runtime": "Go 1.26.8 runtime with runtime/rand.go and runtime/alg.go overlaid at build time: map iteration order and select seeds are decided by the scenario seed",
}


def read(pid, test, technique, level_text, level_note, rule, probes, crash=False, quick_checks=800, design_ref=""):
    return {
        "pkg": "readsim", "test": test, "instrument": True, "instr_pkgs": ["./writer/...", "./reader/..."], "level": "exploration",
        "quick": {"workers": 16, "checks": quick_checks, "shrink": "45s", "worker_timeout": 1500},
        "thorough": {"workers": 16, "checks": 4000, "shrink": "120s", "budget": 1200, "worker_timeout": 3000},
        "technique": technique, "level_text": level_text, "level_note": level_note, "rule": rule, "probes": probes,
        "components": READ_COMPONENTS, "trusted_base": ["synctest fake clock and quiescence", "database/sql semantics of the scripted driver (typed values by column name)"],
        "stall_is_violation": crash, "crash_is_violation": crash, "stall_timeout": 60, "design_ref": design_ref,
        "assumptions": ["result sets have the column types ClickHouse returns for the projected column names"],
    }


READ_RULE = ("a case is one seeded run of the whole reader in a synctest bubble: 1-3 concurrent clients x 1-4 requests over 26 endpoint kinds, query text from a LogQL/PromQL/TraceQL grammar sample, mutated or random, "
             "parameters including zero/negative/reversed/huge/non-numeric values, a scripted result set (0-7 series x 0-250 rows, fingerprint 0 first, interleaved, JSON/logfmt/malformed lines), database faults "
             "(connect error, statement error, error or stall at row k, latencies), client faults (goes away, slow consumer) and a schedule tape. Non-trivial = a fault was configured or the scheduler had a real choice; "
             "distinct = distinct hash of the grant sequence + number of SQL statements.")

PROPS["C12"] = read("C12", "TestRead", "deterministic simulation of the reader on a scripted fault-injecting database/sql driver; oracles: response or abort in bounded simulated time, no unrecovered panic/fatal error in any goroutine, goroutine census back to baseline, livelock and spin detection, lock discipline of shared Go maps (the runtime's concurrent-map abort is a crash the serialising scheduler cannot produce)",
                    "Every read endpoint is driven with grammar-generated, mutated and random queries and hostile parameters while the database fails or stalls at arbitrary rows and clients go away; a panic on any goroutine (the pipeline stages run outside net/http's recover), a fatal runtime error that kills the worker, a request that never returns and request goroutines alive 35 simulated seconds after the end are violations.",
                    "inputs and fault points are sampled; SQL is never executed", READ_RULE,
                    ["rows-closed-before-end", "status-2xx", "status-5xx", "endpoint-query_range", "endpoint-search", "endpoint-prom_range", "query_range-2xx", "query-2xx", "labels-2xx", "label_values-2xx", "series-2xx", "prom_range-2xx", "prom_instant-2xx", "prom_labels-2xx", "prom_series-2xx", "trace-2xx", "trace_json-2xx", "search-2xx", "tags-2xx", "tags_v2-2xx", "tag_values-2xx", "tag_values_v2-2xx", "prof_types-2xx", "prof_label_names-2xx", "prof_label_values-2xx", "prof_select_series-2xx", "prof_merge-2xx", "prof_series-2xx", "prof_merge_profiles-2xx", "render_diff-2xx", "tail-2xx"], crash=True, design_ref="DESIGN.md §5 C12")
PROPS["C15"] = read("C15", "TestRead", "deterministic simulation (fault-free configuration) of the query endpoints on scripted result sets; oracle: the collected body parses as one JSON document and, for pass-through log queries, contains every served row exactly once under one object per label set; metric documents (LogQL, PromQL): one object per series, strictly increasing timestamps, served values unchanged; list endpoints: every served string once; concurrent requests interleave at every socket write",
                    "The real pipeline (Scan batching at 100 rows, stage goroutines, streaming encoder) sits between the scripted rows and the body; result-set shapes (empty, batch-boundary inside a series, fingerprint 0 first, interleaved series, special characters) are sampled by the generator. Weak claim: the decisive quantifier (result sets) is sampled.",
                    "row-level comparison only for plain selector queries (no stage changes the rows); other endpoints are checked for being one well-formed JSON document", READ_RULE,
                    # every endpoint must reach its success path: a fake that mistypes a column sends it down the error path silently
                    ["status-2xx", "endpoint-query_range", "endpoint-query", "query_range-2xx", "query-2xx", "labels-2xx", "label_values-2xx", "series-2xx", "prom_range-2xx", "prom_instant-2xx", "prom_labels-2xx", "prom_series-2xx", "trace-2xx", "trace_json-2xx", "search-2xx", "tags-2xx", "tags_v2-2xx", "tag_values-2xx", "tag_values_v2-2xx", "prof_types-2xx", "prof_label_names-2xx", "prof_label_values-2xx", "prof_select_series-2xx", "prof_merge-2xx", "prof_series-2xx", "prof_merge_profiles-2xx", "render_diff-2xx", "tail-2xx"], design_ref="DESIGN.md §5 C15")
PROPS["C15"]["known_probes"] = [PROPS_C15_PROBE]
PROPS.update({
    "C18": {
        "pkg": "ctrlsim", "test": "TestC18", "instrument": False, "level": "fault_enumeration",
        "technique": "deterministic simulation of process incarnations with statement-level fault/crash injection: exhaustive single-fault enumeration + seeded multi-fault histories (rapid), oracle = catalogue model + script-order tracker",
        "level_text": "Every statement of the uninterrupted initialisation is used as failure point with four fault kinds in all four deployment modes (exhaustive for single faults), plus seeded histories of several faulty incarnations; the real Update code and the real embedded scripts run, only ClickHouse is a model. Sampling beyond one fault per history is not exhaustive.",
        "level_note": "trusts the DDL model of ClickHouse catalogue semantics (rules listed in evidence trusted_base); statements apply atomically; ON CLUSTER partial application is not modelled",
        "design_ref": "DESIGN.md §5 C18",
        "quick": {"workers": 4, "checks": 400, "shrink": "20s"},
        "thorough": {"workers": 16, "checks": 6000, "shrink": "60s", "budget": 600},
        "rule": "a case is one history of process incarnations of the real maintenance.Update against the modelled ClickHouse: "
                "(a) exhaustive sweep: every statement index of the uninterrupted run x {fail-before, apply-then-crash, apply-then-error, crash-before} x 4 deployment modes; "
                "(b) rapid-seeded histories of 1-4 incarnations with 0-2 faults each and configuration changes between restarts. "
                "Non-trivial = at least one injected fault fired; distinct = distinct hash of (fault kind, statement class, script identity) sequence + deployment mode.",
        "probes": ["fault-at-version-write", "fault-at-script", "fault-at-bookkeeping", "restart-needed"],
        "components": CTRL_COMPONENTS, "trusted_base": DDL_TRUST,
        "assumptions": ["ClickHouse applies each DDL statement atomically and durably before acknowledging it",
                        "the script file format documented in the .sql headers (## comments, ';' + empty line separators) is what the independent splitter of the oracle implements"],
    },
    "C19": {
        "pkg": "ctrlsim", "test": "TestC19", "instrument": False, "level": "fault_enumeration",
        "technique": "deterministic simulation of retention runs with statement-level fault/crash injection and configuration-change histories: exhaustive single-fault enumeration + seeded exploration (rapid), oracle = per-table TTL/policy model compared with the configuration",
        "level_text": "Every statement of a retention run is used as failure point (4 kinds x 4 configurations x fresh/after-change x single/clustered, exhaustive for single faults) and seeded sequences of up to four runs with configuration changes and faults are explored; the real Rotate code runs on the schema produced by the real Update. Configurations and multi-fault histories are sampled.",
        "level_note": "trusts the DDL model (MODIFY TTL / MODIFY SETTING replace the stored value; settings rows ordered by insertion); one-second NOW() resolution of the real settings table is not modelled",
        "design_ref": "DESIGN.md §5 C19",
        "quick": {"workers": 4, "checks": 1500, "shrink": "20s"},
        "thorough": {"workers": 16, "checks": 20000, "shrink": "60s", "budget": 600},
        "rule": "a case is one sequence of retention runs (real maintenance.Rotate) over the schema produced by the real Update: "
                "(a) exhaustive sweep: every statement of the uninterrupted retention run x 4 fault kinds x 4 configurations x {fresh, after a configuration change} x {single, clustered}; "
                "(b) rapid-seeded sequences of 1-4 runs with configuration changes (0-3 tiers from 1 s to 100 years, disks, storage policy) and 0-2 faults each. "
                "Non-trivial = a fault fired or the configuration changed between runs; distinct = distinct hash of fault sequence (kind, class, statement) + configuration shapes.",
        "probes": ["fault-at-marker-write", "fault-at-alter", "fault-at-marker-read", "interrupted-then-completed", "config-sequence"],
        "components": CTRL_COMPONENTS, "trusted_base": DDL_TRUST,
        "assumptions": ["the data tables of the property are the seven tables the retention code groups: samples_v3, tempo_traces, metrics_15s (sample tables) and time_series, time_series_gin, tempo_traces_attrs_gin, tempo_traces_kv (index tables)"],
    },
})

PROPS["C14"] = read("C14", "TestC14", "deterministic simulation of translation histories: the SQL observed at the query face for one request is compared (after erasing time literals) between a first translation, one after a history of other translations, one interleaved with concurrent translations by the baton scheduler, earlier runs of the same worker process, successive ticks of the live-tail loop on one prepared plan (also across a UTC date change, against a fresh translation made at the same moment), and the portions of a complex TraceQL request; subjects are LogQL, TraceQL, PromQL and Pyroscope requests",
                    "Histories, interleavings and repeated executions are simulated with the real services; equal canonical text implies equal meaning (sound for passing), any other difference is reported. Query programs are sampled from the LogQL/TraceQL generators.",
                    "the canonicaliser erases integer literals of 9+ digits, date literals, and for TraceQL portions the portion selector and the list of found trace ids; live tail is exercised for log queries only (Loki defines tailing for log queries)", READ_RULE.replace("1-3 concurrent clients x 1-4 requests", "one subject request translated first / after 0-4 other requests / concurrently with 0-3 others / tailed for 0-4 ticks"),
                    ["tail-ticks-compared", "traceql-portions-compared", "translations-compared"], quick_checks=600, design_ref="DESIGN.md §5 C14")

PROPS["C09"] = read("C09", "TestC09", "deterministic simulation of the split LogQL pipeline: the query face serves what ClickHouse returns for the prefix before the split point (computed by a small executable reference evaluator), the real in-process stage goroutines run under the baton scheduler with varying batch boundaries and row latencies, and the response is compared with the reference evaluation of the whole program",
                    "Structured programs (json/logfmt/line_format split; line filters, string and numeric label filters with and/or, drop, unwrap, 11 range functions with by-grouping, 5 vector aggregations with by/without, comparison, limit, direction) over generated data sets; entries are compared as multisets keyed by label set, matrix points against tumbling range buckets. The split point assumed by the harness is confirmed with the tree's own GetBreakpoint/AnalyzeMetrics15sShortcut. Programs and data are sampled.",
                    "the reference follows the two qryn engines where both deviate from Loki in the same way (unwrapped label kept, bare aggregation per series, label_format copy, unanchored label regex are not judged); only well-formed lines; rejected query forms are counted, not judged",
                    "a case is one structured LogQL program whose pipeline is split by json/logfmt/line_format, a data set of 1-3 series x 0-130 lines from a catalogue, request parameters (limit, direction, step), per-row latency and a schedule tape; "
                    "non-trivial = at least one row was served; distinct = distinct hash of (query text, grant sequence, rows served)",
                    ["more-than-one-scan-batch", "served-rows", "entries-after-pipeline"], quick_checks=800, design_ref="DESIGN.md §5 C09")
