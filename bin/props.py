"""Per-property configuration of bin/check."""

CTRL_COMPONENTS = {
    "real": ["ctrl/qryn/maintenance.Update, updateScripts, getSQLFile, Cleanup", "ctrl/qryn/maintenance.Rotate, rotateTables, storagePolicyUpdate, getSetting, putSetting",
             "embedded migration scripts ctrl/qryn/sql/*.sql", "text/template rendering"],
    "stub": ["ClickHouse: DDL face (zz_verif/ddl) - catalogue model + ver/settings rows, per-statement fault injection"],
    "not_simulated": ["ctrl.Init/ConnectV2 dialling, InitDB (CREATE DATABASE)", "ON CLUSTER partial application on some replicas only"],
}

DDL_TRUST = [
    "CREATE TABLE/VIEW/MATERIALIZED VIEW without IF NOT EXISTS on an existing name is an error; with it a no-op",
    "a (materialized) view needs its source table, and its TO target, to exist; bare column names in its select list must be columns of the source",
    "DROP TABLE IF EXISTS on a missing table is a no-op",
    "RENAME TABLE on a missing source is an error unless IF EXISTS; onto an existing target is an error",
    "ALTER TABLE on a missing table is an error; ADD COLUMN of an existing column is an error unless IF NOT EXISTS; the actions of one ALTER apply atomically",
    "MODIFY SETTING / MODIFY TTL replace the stored value",
    "a statement either applies completely or not at all; a crash loses everything except the applied statements",
    "max(ver) over no rows is 0; argMax(value, inserted_at) returns the value of the latest row of that fingerprint",
    "any statement form not listed makes the check exit 2 instead of guessing",
]

PROPS = {
    "C18": {
        "pkg": "ctrlsim", "test": "TestC18", "instrument": False, "level": "fault_enumeration",
        "technique": "deterministic simulation of process incarnations with statement-level fault/crash injection: exhaustive single-fault enumeration + seeded multi-fault histories (rapid), oracle = catalogue model + script-order tracker",
        "level_text": "Every statement of the uninterrupted initialisation is used as failure point with four fault kinds in all four deployment modes (exhaustive for single faults), plus seeded histories of several faulty incarnations; the real Update code and the real embedded scripts run, only ClickHouse is a model. Sampling beyond one fault per history is not exhaustive.",
        "level_note": "trusts the DDL model of ClickHouse catalogue semantics (rules listed in evidence trusted_base); statements apply atomically; ON CLUSTER partial application is not modelled",
        "design_ref": "DESIGN.md §5 C18",
        "quick": {"workers": 4, "checks": 400, "shrink": "20s"},
        "thorough": {"workers": 16, "checks": 6000, "shrink": "60s", "budget": 600},
        "rule": "a case is one history of process incarnations of the real maintenance.Update against the modelled ClickHouse: "
                "(a) exhaustive sweep: every statement index of the uninterrupted run x {fail-before, apply-then-crash, apply-then-error, crash-before} x 4 deployment modes; "
                "(b) rapid-seeded histories of 1-4 incarnations with 0-2 faults each and configuration changes between restarts. "
                "Non-trivial = at least one injected fault fired; distinct = distinct hash of (fault kind, statement class, script identity) sequence + deployment mode.",
        "probes": ["fault-at-version-write", "fault-at-script", "fault-at-bookkeeping", "restart-needed"],
        "components": CTRL_COMPONENTS, "trusted_base": DDL_TRUST,
        "assumptions": ["ClickHouse applies each DDL statement atomically and durably before acknowledging it",
                        "the script file format documented in the .sql headers (## comments, ';' + empty line separators) is what the independent splitter of the oracle implements"],
    },
    "C19": {
        "pkg": "ctrlsim", "test": "TestC19", "instrument": False, "level": "fault_enumeration",
        "technique": "deterministic simulation of retention runs with statement-level fault/crash injection and configuration-change histories: exhaustive single-fault enumeration + seeded exploration (rapid), oracle = per-table TTL/policy model compared with the configuration",
        "level_text": "Every statement of a retention run is used as failure point (4 kinds x 4 configurations x fresh/after-change x single/clustered, exhaustive for single faults) and seeded sequences of up to four runs with configuration changes and faults are explored; the real Rotate code runs on the schema produced by the real Update. Configurations and multi-fault histories are sampled.",
        "level_note": "trusts the DDL model (MODIFY TTL / MODIFY SETTING replace the stored value; settings rows ordered by insertion); one-second NOW() resolution of the real settings table is not modelled",
        "design_ref": "DESIGN.md §5 C19",
        "quick": {"workers": 4, "checks": 1500, "shrink": "20s"},
        "thorough": {"workers": 16, "checks": 20000, "shrink": "60s", "budget": 600},
        "rule": "a case is one sequence of retention runs (real maintenance.Rotate) over the schema produced by the real Update: "
                "(a) exhaustive sweep: every statement of the uninterrupted retention run x 4 fault kinds x 4 configurations x {fresh, after a configuration change} x {single, clustered}; "
                "(b) rapid-seeded sequences of 1-4 runs with configuration changes (0-3 tiers from 1 s to 100 years, disks, storage policy) and 0-2 faults each. "
                "Non-trivial = a fault fired or the configuration changed between runs; distinct = distinct hash of fault sequence (kind, class, statement) + configuration shapes.",
        "probes": ["fault-at-marker-write", "fault-at-alter", "fault-at-marker-read", "interrupted-then-completed", "config-sequence"],
        "components": CTRL_COMPONENTS, "trusted_base": DDL_TRUST,
        "assumptions": ["the data tables of the property are the seven tables the retention code groups: samples_v3, tempo_traces, metrics_15s (sample tables) and time_series, time_series_gin, tempo_traces_attrs_gin, tempo_traces_kv (index tables)"],
    },
}
