// Package simcheck is the common worker-side plumbing of every scenario:
// seeded generation of scenarios with pgregory.net/rapid (the single source of
// entropy, derived from VERIF_SEED by the driver), execution, shrinking that
// is pinned to the first violated oracle class, replay of a scenario file, and
// the JSON report the driver aggregates into evidence.
package simcheck

import (
	"encoding/json"
	"fmt"
	"os"
	"sort"
	"sync"
	"testing"
	"time"

	"pgregory.net/rapid"
)

// Violation is a failed oracle.
type Violation struct {
	Property  string `json:"property"`
	Oracle    string `json:"oracle"`    // oracle class, stable across shrinking
	Signature string `json:"signature"` // what fails, specific enough for known-findings matching
	Detail    string `json:"detail"`
}

func (v *Violation) String() string {
	return fmt.Sprintf("property=%s oracle=%s signature=%q :: %s", v.Property, v.Oracle, v.Signature, v.Detail)
}

// RunInfo describes what one run covered.
type RunInfo struct {
	Hash       uint64         // hash of the run's event trace (interleaving / history measure)
	NonTrivial bool           // by the scenario's stated rule
	Faults     map[string]int // fault kinds that actually fired
	Probes     map[string]int // reach probes hit
	SimNanos   int64          // simulated time covered
	Steps      int64          // scheduler grants / statements
	States     []uint64       // optional: hashes of states visited
	Violations []*Violation   // all failed oracles of the run
	Sample     any            // rendering of the run (kept for a few runs)
}

// Report is what a worker writes to $VERIF_OUT.
type Report struct {
	Scenario     string            `json:"scenario"`
	Runs         int               `json:"runs"`
	NonTrivial   int               `json:"nontrivial"`
	Hashes       []uint64          `json:"hashes"` // distinct hashes of non-trivial runs
	StateHashes  []uint64          `json:"state_hashes"`
	Faults       map[string]int    `json:"faults"`
	Probes       map[string]int    `json:"probes"`
	SimSeconds   float64           `json:"sim_seconds"`
	Steps        int64             `json:"steps"`
	WallSeconds  float64           `json:"wall_seconds"`
	Samples      []any             `json:"samples"`
	Failures     []Failure         `json:"failures"`
	Known        map[string]int    `json:"known"` // known-finding signature -> hits
	Notes        map[string]string `json:"notes,omitempty"`
	HarnessError string            `json:"harness_error,omitempty"`
}

// Failure is a minimised failing scenario.
type Failure struct {
	Violation *Violation      `json:"violation"`
	Scenario  json.RawMessage `json:"scenario"`
	Shrunk    bool            `json:"shrunk"`
}

type Collector struct {
	mu      sync.Mutex
	rep     Report
	hashes  map[uint64]struct{}
	states  map[uint64]struct{}
	start   time.Time
	maxSamp int
	known   []KnownFinding
}

// KnownFinding is an entry of /verif/known_findings.json (status "known").
type KnownFinding struct {
	Property  string `json:"property"`
	Status    string `json:"status"` // known | fixed
	Signature string `json:"signature"`
	What      string `json:"what"`
	Commit    string `json:"commit,omitempty"`
}

func NewCollector(scenario string) *Collector {
	c := &Collector{hashes: map[uint64]struct{}{}, states: map[uint64]struct{}{}, start: time.Now(), maxSamp: 3}
	c.rep.Scenario = scenario
	c.rep.Faults = map[string]int{}
	c.rep.Probes = map[string]int{}
	c.rep.Known = map[string]int{}
	if p := os.Getenv("VERIF_KNOWN"); p != "" {
		if b, err := os.ReadFile(p); err == nil {
			var all []KnownFinding
			if json.Unmarshal(b, &all) == nil {
				for _, k := range all {
					if k.Status == "known" {
						c.known = append(c.known, k)
					}
				}
			}
		}
	}
	return c
}

// IsKnown reports whether a violation is a listed known finding (exact signature match).
func (c *Collector) IsKnown(v *Violation) bool {
	for _, k := range c.known {
		if k.Property == v.Property && k.Signature == v.Signature {
			return true
		}
	}
	return false
}

func (c *Collector) Add(ri *RunInfo) {
	c.mu.Lock()
	defer c.mu.Unlock()
	c.rep.Runs++
	if ri.NonTrivial {
		c.rep.NonTrivial++
		c.hashes[ri.Hash] = struct{}{}
	}
	for _, s := range ri.States {
		c.states[s] = struct{}{}
	}
	for k, v := range ri.Faults {
		c.rep.Faults[k] += v
	}
	for k, v := range ri.Probes {
		c.rep.Probes[k] += v
	}
	c.rep.SimSeconds += float64(ri.SimNanos) / 1e9
	c.rep.Steps += ri.Steps
	if ri.Sample != nil && len(c.rep.Samples) < c.maxSamp && ri.NonTrivial {
		c.rep.Samples = append(c.rep.Samples, ri.Sample)
	}
}

func (c *Collector) AddKnown(sig string) {
	c.mu.Lock()
	c.rep.Known[sig]++
	c.mu.Unlock()
}

func (c *Collector) AddFailure(v *Violation, scenario any, shrunk bool) {
	b, _ := json.Marshal(scenario)
	c.mu.Lock()
	for _, f := range c.rep.Failures {
		if f.Violation.Oracle == v.Oracle && f.Violation.Signature == v.Signature {
			c.mu.Unlock()
			return
		}
	}
	c.rep.Failures = append(c.rep.Failures, Failure{Violation: v, Scenario: b, Shrunk: shrunk})
	c.mu.Unlock()
}

func (c *Collector) Note(k, v string) {
	c.mu.Lock()
	if c.rep.Notes == nil {
		c.rep.Notes = map[string]string{}
	}
	c.rep.Notes[k] = v
	c.mu.Unlock()
}

func (c *Collector) HarnessError(msg string) {
	c.mu.Lock()
	c.rep.HarnessError = msg
	c.mu.Unlock()
}

// Flush writes the report to $VERIF_OUT (or stdout when unset).
func (c *Collector) Flush() {
	c.mu.Lock()
	defer c.mu.Unlock()
	c.rep.Hashes = c.rep.Hashes[:0]
	for h := range c.hashes {
		c.rep.Hashes = append(c.rep.Hashes, h)
	}
	sort.Slice(c.rep.Hashes, func(i, j int) bool { return c.rep.Hashes[i] < c.rep.Hashes[j] })
	c.rep.StateHashes = c.rep.StateHashes[:0]
	for h := range c.states {
		c.rep.StateHashes = append(c.rep.StateHashes, h)
	}
	sort.Slice(c.rep.StateHashes, func(i, j int) bool { return c.rep.StateHashes[i] < c.rep.StateHashes[j] })
	c.rep.WallSeconds = time.Since(c.start).Seconds()
	b, err := json.Marshal(&c.rep)
	if err != nil {
		panic(err)
	}
	if p := os.Getenv("VERIF_OUT"); p != "" {
		if err := os.WriteFile(p, b, 0o644); err != nil {
			panic(err)
		}
	} else {
		fmt.Println(string(b))
	}
}

// Heartbeat records the scenario about to run in $VERIF_HEARTBEAT, so that the
// driver's wall-clock watchdog can attribute a worker that stops making
// progress (a goroutine spinning inside code the scheduler cannot interrupt) to
// the scenario that caused it.
func Heartbeat(scenario any) {
	p := os.Getenv("VERIF_HEARTBEAT")
	if p == "" {
		return
	}
	b, err := json.Marshal(scenario)
	if err != nil {
		return
	}
	tmp := p + ".tmp"
	if os.WriteFile(tmp, b, 0o644) == nil {
		os.Rename(tmp, p)
	}
}

// Explore runs the rapid-driven exploration of one scenario type, or replays
// $VERIF_REPLAY. gen draws a scenario; run executes it. The first violated
// (property, oracle) pins what shrinking is allowed to preserve.
func Explore[S any](t *testing.T, c *Collector, property string, gen func(*rapid.T) S, run func(S) *RunInfo) {
	pick := func(ri *RunInfo) *Violation {
		for _, v := range ri.Violations {
			if v.Property != property {
				continue
			}
			if c.IsKnown(v) {
				c.AddKnown(v.Signature)
				continue
			}
			return v
		}
		return nil
	}
	if p := os.Getenv("VERIF_REPLAY"); p != "" {
		b, err := os.ReadFile(p)
		if err != nil {
			c.HarnessError("cannot read replay: " + err.Error())
			return
		}
		var f Failure
		if err := json.Unmarshal(b, &f); err != nil {
			c.HarnessError("cannot parse replay: " + err.Error())
			return
		}
		var s S
		if err := json.Unmarshal(f.Scenario, &s); err != nil {
			c.HarnessError("cannot parse replay scenario: " + err.Error())
			return
		}
		Heartbeat(s)
		ri := run(s)
		c.Add(ri)
		if v := pick(ri); v != nil {
			c.AddFailure(v, s, true)
			t.Errorf("REPLAY-VIOLATION %s", v)
		}
		return
	}
	var (
		target   *Violation
		lastFail S
		lastV    *Violation
		nfail    int
	)
	// rapid.Check reports through t; we keep our own record of the minimal failure.
	ok := t.Run("explore", func(t *testing.T) {
		rapid.Check(t, func(rt *rapid.T) {
			s := gen(rt)
			Heartbeat(s)
			ri := run(s)
			c.Add(ri)
			v := pick(ri)
			if v == nil {
				return
			}
			if target == nil {
				target = v
			}
			if v.Oracle != target.Oracle {
				// a different oracle than the one being minimised: not a valid shrink step
				return
			}
			lastFail, lastV = s, v
			nfail++
			rt.Fatalf("VIOLATION %s", v)
		})
	})
	if !ok && lastV != nil {
		c.AddFailure(lastV, lastFail, nfail > 1)
	} else if !ok {
		c.HarnessError("rapid failed without a recorded violation (generator or harness error)")
	}
}

// Single runs one explicitly constructed scenario (fault enumeration) and records a failure if any.
func Single[S any](c *Collector, property string, s S, run func(S) *RunInfo) *Violation {
	Heartbeat(s)
	ri := run(s)
	c.Add(ri)
	for _, v := range ri.Violations {
		if v.Property != property {
			continue
		}
		if c.IsKnown(v) {
			c.AddKnown(v.Signature)
			continue
		}
		c.AddFailure(v, s, true)
		return v
	}
	return nil
}
