package ctrlsim

import (
	"fmt"
	"os"
	"testing"

	"github.com/metrico/qryn/zz_verif/ddl"
	"github.com/metrico/qryn/zz_verif/simcheck"
	"pgregory.net/rapid"
)

func baseCfgs() []Cfg {
	return []Cfg{
		{TTLDays: 7},
		{Cloud: true, TTLDays: 7},
		{Cluster: "c1", TTLDays: 7},
		{Cloud: true, Cluster: "c1", TTLDays: 7, StoragePolicy: "tiered", SkipUnavail: true},
	}
}

func genCfg(rt *rapid.T, label string) Cfg {
	return Cfg{
		Cloud:         rapid.Bool().Draw(rt, label+".cloud"),
		Cluster:       rapid.SampledFrom([]string{"", "", "c1"}).Draw(rt, label+".cluster"),
		TTLDays:       rapid.SampledFrom([]int{0, 1, 7, 30, 365}).Draw(rt, label+".ttl"),
		StoragePolicy: rapid.SampledFrom([]string{"", "", "tiered"}).Draw(rt, label+".policy"),
		Ordering:      rapid.SampledFrom([]string{"", "timestamp_ns, fingerprint"}).Draw(rt, label+".ordering"),
		SkipUnavail:   rapid.Bool().Draw(rt, label+".skip"),
	}
}

func genFaults(rt *rapid.T, label string, maxIdx int, maxN int) []FaultAt {
	n := rapid.IntRange(0, maxN).Draw(rt, label+".n")
	var fs []FaultAt
	for i := 0; i < n; i++ {
		fs = append(fs, FaultAt{
			Idx:  rapid.IntRange(0, maxIdx).Draw(rt, fmt.Sprintf("%s.%d.idx", label, i)),
			Kind: rapid.IntRange(1, 4).Draw(rt, fmt.Sprintf("%s.%d.kind", label, i)),
		})
	}
	return fs
}

func genC18(rt *rapid.T) C18Scenario {
	s := C18Scenario{Cfg: genCfg(rt, "cfg")}
	np := rapid.IntRange(1, 4).Draw(rt, "procs")
	for i := 0; i < np; i++ {
		p := Proc{Faults: genFaults(rt, fmt.Sprintf("p%d", i), 330, 2)}
		if i > 0 && rapid.IntRange(0, 3).Draw(rt, fmt.Sprintf("p%d.chg", i)) == 0 {
			c := genCfg(rt, fmt.Sprintf("p%d.cfg", i))
			p.Cfg = &c
		}
		if s.Cfg.Cluster != "" {
			p.Node = rapid.IntRange(0, 1).Draw(rt, fmt.Sprintf("p%d.node", i))
		}
		s.Procs = append(s.Procs, p)
	}
	return s
}

// TestC18 = exhaustive single-fault sweep (every statement x every fault kind x every mode)
// followed by seeded multi-fault exploration.
func TestC18(t *testing.T) {
	c := simcheck.NewCollector("ctrl-update")
	defer c.Flush()
	defer func() {
		if r := recover(); r != nil {
			c.HarnessError(fmt.Sprint(r))
			t.Errorf("HARNESS-ERROR %v", r)
		}
	}()
	if os.Getenv("VERIF_REPLAY") == "" && os.Getenv("VERIF_NO_ENUM") == "" {
		total := 0
		for _, cfg := range baseCfgs() {
			_, refLog, _, err := referenceRun(cfg)
			if err != nil {
				simcheck.Single(c, "C18", C18Scenario{Cfg: cfg}, RunC18)
				continue
			}
			seen := map[string]bool{}
			for i := range refLog {
				for k := ddl.FailBefore; k <= ddl.CrashBefore; k++ {
					s := C18Scenario{Cfg: cfg, Procs: []Proc{{Faults: []FaultAt{{Idx: i, Kind: int(k)}}}}}
					if v := simcheck.Single(c, "C18", s, RunC18); v != nil && !seen[v.Oracle+v.Signature] {
						seen[v.Oracle+v.Signature] = true
						t.Errorf("VIOLATION %s", v)
					}
					total++
				}
			}
		}
		c.Note("enumeration", fmt.Sprintf("single-fault sweep: %d runs = every statement of the uninterrupted run x 4 fault kinds x 4 deployment modes (exhaustive)", total))
	}
	simcheck.Explore(t, c, "C18", genC18, RunC18)
}
