package ctrlsim

import (
	"fmt"
	"hash/fnv"
	"regexp"
	"strconv"
	"strings"
	"time"

	"github.com/metrico/qryn/ctrl/qryn/maintenance"
	"github.com/metrico/qryn/zz_verif/ddl"
	"github.com/metrico/qryn/zz_verif/simcheck"
)

// Tier is one tiered-move policy of the retention configuration.
type Tier struct {
	Seconds int64  `json:"seconds"`
	MoveTo  string `json:"move_to"`
}

// RotCfg is a retention configuration.
type RotCfg struct {
	Tiers         []Tier `json:"tiers"`
	TTLDays       int    `json:"ttl_days"`
	StoragePolicy string `json:"storage_policy"`
}

// RotRun is one incarnation of the retention run.
type RotRun struct {
	Cfg    RotCfg    `json:"cfg"`
	Faults []FaultAt `json:"faults"`
}

// C19Scenario is a sequence of retention runs (configuration changes and faults
// in between); the harness appends one fault-free run and one idempotence run.
type C19Scenario struct {
	Cluster string   `json:"cluster"`
	Runs    []RotRun `json:"runs"`
}

// the table groups named by the property: sample tables (tier moves >= 1 min) and index tables (>= 1 day)
var sampleTables = []string{"samples_v3", "tempo_traces", "metrics_15s"}
var indexTables = []string{"time_series", "time_series_gin", "tempo_traces_attrs_gin", "tempo_traces_kv"}

func runRotate(st *ddl.State, proc int, log *[]ddl.Stmt, faults map[int]ddl.FaultKind, cluster string, cfg RotCfg) (err error, crashed bool, conn *ddl.Conn) {
	conn = ddl.NewConn(st, proc, log, faults)
	defer func() {
		if r := recover(); r != nil {
			if _, ok := r.(ddl.Crash); ok {
				crashed = true
				return
			}
			panic(r)
		}
	}()
	var days []maintenance.RotatePolicy
	for _, t := range cfg.Tiers {
		days = append(days, maintenance.RotatePolicy{TTL: time.Duration(t.Seconds) * time.Second, MoveTo: t.MoveTo})
	}
	err = maintenance.Rotate(conn, cluster, cluster != "", days, cfg.TTLDays, cfg.StoragePolicy, nopLogger{})
	return
}

var reTTLElem = regexp.MustCompile(`^(.*) \+ toInterval(Second|Day)\((-?\d+)\)(?: TO DISK '([^']*)')?$`)

// checkConverged compares every table of the groups with the configuration.
func checkConverged(st *ddl.State, cfg RotCfg, when string) []*simcheck.Violation {
	var res []*simcheck.Violation
	cur := ""
	bad := func(oracle, sig, detail string) {
		res = append(res, &simcheck.Violation{Property: "C19", Oracle: oracle, Signature: sig, Detail: when + ": " + detail + " [table=" + cur + "]"})
	}
	check := func(tbl string, minSec int64) {
		cur = tbl
		o, ok := st.Objects[tbl]
		if !ok {
			bad("table-missing", "table missing "+tbl, "table "+tbl+" does not exist")
			return
		}
		if cfg.StoragePolicy != "" && o.Settings["storage_policy"] != cfg.StoragePolicy {
			bad("storage-policy-not-applied", fmt.Sprintf("table=%s storage_policy=%q want=%q", tbl, o.Settings["storage_policy"], cfg.StoragePolicy),
				fmt.Sprintf("table %s has storage policy %q, configured %q", tbl, o.Settings["storage_policy"], cfg.StoragePolicy))
		}
		elems := splitTopLevel(o.TTL)
		if o.TTL == "" {
			elems = nil
		}
		if len(elems) != len(cfg.Tiers)+1 {
			bad("ttl-not-applied", fmt.Sprintf("table=%s ttl-elements=%d want=%d", tbl, len(elems), len(cfg.Tiers)+1),
				fmt.Sprintf("table %s has TTL %q; configuration has %d tiers + drop after %d days", tbl, o.TTL, len(cfg.Tiers), cfg.TTLDays))
			return
		}
		for i, e := range elems {
			m := reTTLElem.FindStringSubmatch(e)
			if m == nil {
				bad("ttl-malformed", fmt.Sprintf("table=%s ttl element %q", tbl, e), "cannot parse TTL element "+e)
				continue
			}
			n, _ := strconv.ParseInt(m[3], 10, 64)
			if i < len(cfg.Tiers) {
				want := cfg.Tiers[i].Seconds
				if want < minSec {
					want = minSec
				}
				if m[2] != "Second" || n != want || m[4] != cfg.Tiers[i].MoveTo {
					bad("tier-mismatch", fmt.Sprintf("table=%s tier#%d got=%s(%d)->%q want=Second(%d)->%q", tbl, i, m[2], n, m[4], want, cfg.Tiers[i].MoveTo),
						fmt.Sprintf("table %s tier %d is %q; configured %ds to disk %q with minimum %ds", tbl, i, e, cfg.Tiers[i].Seconds, cfg.Tiers[i].MoveTo, minSec))
				}
			} else {
				if m[2] != "Day" || n != int64(cfg.TTLDays) || m[4] != "" {
					bad("drop-ttl-mismatch", fmt.Sprintf("table=%s drop got=%s(%d) want=Day(%d)", tbl, m[2], n, cfg.TTLDays),
						fmt.Sprintf("table %s drop TTL is %q; configured %d days", tbl, e, cfg.TTLDays))
				}
			}
		}
	}
	for _, t := range sampleTables {
		check(t, 60)
	}
	for _, t := range indexTables {
		check(t, 86400)
	}
	return res
}

var reAlterTbl = regexp.MustCompile("^ALTER TABLE `?([A-Za-z0-9_]+)`?")

// staleMarker recognises one specific history class: the table was once altered
// to the value now configured, then altered to a different value by a run that
// was interrupted (so the recorded marker still names the old value), and the
// present run - configured with the old value again - did not alter it.
func staleMarker(log []ddl.Stmt, ok []bool, v *simcheck.Violation, table string, k int) bool {
	kind := "MODIFY TTL"
	if v.Oracle == "storage-policy-not-applied" {
		kind = "storage_policy"
	}
	type alt struct {
		proc int
		sql  string
		arg  string
	}
	var alts []alt
	for _, e := range log {
		if e.Class != "alter" || !e.Applied || !strings.Contains(e.SQL, kind) {
			continue
		}
		m := reAlterTbl.FindStringSubmatch(e.SQL)
		if m == nil || m[1] != table {
			continue
		}
		alts = append(alts, alt{e.Proc, e.SQL, fmt.Sprint(e.Args)})
	}
	if len(alts) < 2 {
		return false
	}
	last := alts[len(alts)-1]
	if last.proc >= k || last.proc >= len(ok) || ok[last.proc] {
		return false // altered by the present run, or last altered by a run that completed
	}
	// an earlier run applied something else than the interrupted run did
	for _, a := range alts[:len(alts)-1] {
		if a.proc < last.proc && (a.sql != last.sql || a.arg != last.arg) {
			return true
		}
	}
	return false
}

func splitTopLevel(s string) []string {
	var res []string
	depth, start := 0, 0
	inq := false
	for i := 0; i < len(s); i++ {
		switch ch := s[i]; {
		case inq:
			if ch == '\'' {
				inq = false
			}
		case ch == '\'':
			inq = true
		case ch == '(':
			depth++
		case ch == ')':
			depth--
		case ch == ',' && depth == 0:
			res = append(res, strings.TrimSpace(s[start:i]))
			start = i + 1
		}
	}
	return append(res, strings.TrimSpace(s[start:]))
}

type c19Sample struct {
	Cluster string   `json:"cluster"`
	Runs    []RotCfg `json:"configs"`
	Faults  []string `json:"faults_fired"`
	Stmts   int      `json:"statements"`
	Outcome string   `json:"outcome"`
}

var initialStates = map[string]*ddl.State{}

func initialState(cluster string) *ddl.State {
	if st, ok := initialStates[cluster]; ok {
		return st.Clone()
	}
	st, _, _, err := referenceRun(Cfg{Cluster: cluster, TTLDays: 7})
	if err != nil {
		panic("cannot initialise schema for C19: " + err.Error())
	}
	initialStates[cluster] = st
	return st.Clone()
}

// RunC19 executes a scenario and evaluates the C19 oracles.
func RunC19(s C19Scenario) *simcheck.RunInfo {
	ri := &simcheck.RunInfo{Faults: map[string]int{}, Probes: map[string]int{}}
	h := fnv.New64a()
	st := initialState(s.Cluster)
	var log []ddl.Stmt
	var fired []string
	proc := 0
	var cfgs []RotCfg
	var oks []bool
	reTbl := regexp.MustCompile(`\[table=([A-Za-z0-9_]+)\]$`)
	classify := func(vs []*simcheck.Violation, k int) []*simcheck.Violation {
		for _, v := range vs {
			m := reTbl.FindStringSubmatch(v.Detail)
			if m == nil {
				continue
			}
			if staleMarker(log, oks, v, m[1], k) {
				kind := "ttl"
				if v.Oracle == "storage-policy-not-applied" {
					kind = "storage-policy"
				}
				v.Oracle = "stale-marker-after-revert"
				v.Signature = "stale rotate marker (" + kind + "): reconfiguration interrupted after altering a table, then configuration reverted to the recorded value; table keeps the interrupted run's value"
			}
		}
		return vs
	}
	lastOK := false
	var last RotCfg
	for _, r := range s.Runs {
		fm := map[int]ddl.FaultKind{}
		for _, f := range r.Faults {
			fm[f.Idx] = ddl.FaultKind(f.Kind)
		}
		before := len(log)
		err, crashed, conn := runRotate(st, proc, &log, fm, s.Cluster, r.Cfg)
		proc++
		for k, n := range conn.Fired {
			ri.Faults[k.String()] += n
		}
		nf := 0
		for _, e := range log[before:] {
			if e.Fault != ddl.FaultNone && e.Err != "" {
				nf++
				fired = append(fired, fmt.Sprintf("run%d stmt#%d %s %s: %.70s", proc-1, e.Idx, e.Fault, e.Class, e.SQL))
				fmt.Fprintf(h, "%s|%s|%.40s;", e.Fault, e.Class, e.SQL)
				switch e.Class {
				case "insert-settings":
					ri.Probes["fault-at-marker-write"]++
				case "alter":
					ri.Probes["fault-at-alter"]++
				default:
					ri.Probes["fault-at-marker-read"]++
				}
			}
		}
		cfgs = append(cfgs, r.Cfg)
		last = r.Cfg
		lastOK = err == nil && !crashed
		oks = append(oks, lastOK)
		if lastOK {
			// a run that reported success must have converged, whatever happened before
			ri.Violations = append(ri.Violations, classify(checkConverged(st, r.Cfg, fmt.Sprintf("after successful run %d", proc-1)), proc-1)...)
		} else if nf == 0 {
			ri.Violations = append(ri.Violations, &simcheck.Violation{Property: "C19", Oracle: "run-fails-without-fault",
				Signature: "fault-free retention run fails: " + fmt.Sprint(err), Detail: fmt.Sprintf("config %+v: %v", r.Cfg, err)})
		}
	}
	if len(s.Runs) > 0 {
		if len(s.Runs) > 1 {
			ri.Probes["config-sequence"]++
		}
		if !lastOK {
			// the interrupted run is completed by the next run
			ri.Probes["interrupted-then-completed"]++
			err, _, _ := runRotate(st, proc, &log, nil, s.Cluster, last)
			proc++
			if err != nil {
				ri.Violations = append(ri.Violations, &simcheck.Violation{Property: "C19", Oracle: "next-run-fails",
					Signature: "run after interruption fails: " + err.Error(), Detail: fmt.Sprintf("after faults %v the next fault-free run fails: %v", fired, err)})
			} else {
				oks = append(oks, true)
				vs := classify(checkConverged(st, last, "after the run following an interrupted run"), proc-1)
				for _, v := range vs {
					v.Detail += fmt.Sprintf(" (faults: %v)", fired)
				}
				ri.Violations = append(ri.Violations, vs...)
			}
		}
		// unchanged configuration => no ALTER
		before := len(log)
		err, _, _ := runRotate(st, proc, &log, nil, s.Cluster, last)
		proc++
		if err != nil {
			ri.Violations = append(ri.Violations, &simcheck.Violation{Property: "C19", Oracle: "rerun-fails",
				Signature: "rerun fails: " + err.Error(), Detail: err.Error()})
		}
		for _, e := range log[before:] {
			if e.Class == "alter" {
				ri.Violations = append(ri.Violations, &simcheck.Violation{Property: "C19", Oracle: "rerun-issues-alter",
					Signature: fmt.Sprintf("rerun issues: %.90s", e.SQL),
					Detail:    fmt.Sprintf("a run with unchanged configuration %+v issued %q", last, e.SQL)})
				break
			}
		}
	}
	if s.Cluster != "" {
		// in clustered mode every ALTER must run ON CLUSTER: without the clause it changes one node only
		for _, e := range log {
			if e.Class == "alter" && e.Applied && !strings.Contains(strings.ToUpper(e.SQL), "ON CLUSTER") {
				ri.Violations = append(ri.Violations, &simcheck.Violation{Property: "C19", Oracle: "alter-on-one-node-only",
					Signature: fmt.Sprintf("clustered mode, no ON CLUSTER: %.70s", e.SQL),
					Detail:    "in clustered mode the statement " + e.SQL + " carries no ON CLUSTER clause: the retention of the other nodes stays as it was"})
				break
			}
		}
	}
	outcome := "converged"
	if len(ri.Violations) > 0 {
		outcome = "violated"
	}
	ri.NonTrivial = len(fired) > 0 || len(s.Runs) > 1
	fmt.Fprintf(h, "cluster=%v runs=%d", s.Cluster != "", len(s.Runs))
	for _, c := range cfgs {
		fmt.Fprintf(h, "|%d tiers pol=%v", len(c.Tiers), c.StoragePolicy != "")
	}
	ri.Hash = h.Sum64()
	ri.Steps = int64(len(log))
	ri.Sample = c19Sample{Cluster: s.Cluster, Runs: cfgs, Faults: fired, Stmts: len(log), Outcome: outcome}
	return ri
}
