// Package ctrlsim simulates the ctrl side of qryn (schema initialisation and
// retention) as sequences of process incarnations of the real
// maintenance.Update / maintenance.Rotate against the DDL face of the simulated
// ClickHouse, with failures and crashes injected at statement granularity.
package ctrlsim

import (
	"fmt"
	"hash/fnv"
	"regexp"
	"strings"

	"github.com/metrico/qryn/ctrl/qryn/maintenance"
	"github.com/metrico/qryn/ctrl/qryn/sql"
	"github.com/metrico/qryn/zz_verif/ddl"
	"github.com/metrico/qryn/zz_verif/simcheck"
)

type nopLogger struct{}

func (nopLogger) Error(args ...any) {}
func (nopLogger) Debug(args ...any) {}
func (nopLogger) Info(args ...any)  {}

// Cfg is the configuration of one initialisation run.
type Cfg struct {
	Cloud         bool   `json:"cloud"`   // replicated engines
	Cluster       string `json:"cluster"` // non-empty => clustered + distributed tables
	TTLDays       int    `json:"ttl_days"`
	StoragePolicy string `json:"storage_policy"`
	Ordering      string `json:"ordering"`
	SkipUnavail   bool   `json:"skip_unavailable_shards"`
}

func (c Cfg) mode() int {
	m := maintenance.CLUST_MODE_SINGLE
	if c.Cloud {
		m = maintenance.CLUST_MODE_CLOUD
	}
	if c.Cluster != "" {
		m |= maintenance.CLUST_MODE_DISTRIBUTED
	}
	return m
}

// FaultAt places one fault at the Idx-th statement of a process incarnation.
type FaultAt struct {
	Idx  int `json:"idx"`
	Kind int `json:"kind"`
}

// Proc is one process incarnation.
type Proc struct {
	Faults []FaultAt `json:"faults"`
	Cfg    *Cfg      `json:"cfg,omitempty"` // configuration change before this incarnation
	Node   int       `json:"node,omitempty"` // cluster node (0/1) this incarnation connects to; clustered mode only
}

// C18Scenario is a sequence of (possibly faulty) incarnations of Update; the
// harness appends fault-free restarts until Update returns nil.
type C18Scenario struct {
	Cfg   Cfg    `json:"cfg"`
	Procs []Proc `json:"procs"`
}

// script templates, independently split (documented format of the .sql files:
// comment lines start with ##, statements end with ';' followed by an empty line).
type scriptFile struct {
	Name    string
	Dist    bool
	Scripts []*regexp.Regexp
	Raw     []string
}

var (
	reComment = regexp.MustCompile(`(?m)^##.*$`)
	reSep     = regexp.MustCompile(`;[ \t]*\n[ \t]*\n`)
	reTpl     = regexp.MustCompile(`\{\{[^}]*\}\}`)
	reWS      = regexp.MustCompile(`\s+`)
)

func splitScripts(name string, dist bool, text string) *scriptFile {
	f := &scriptFile{Name: name, Dist: dist}
	text = reComment.ReplaceAllString(text, "")
	// blank lines made only of spaces count as empty lines
	text = regexp.MustCompile(`(?m)^[ \t]+$`).ReplaceAllString(text, "")
	for _, s := range reSep.Split(text, -1) {
		s = strings.TrimSpace(s)
		if s == "" {
			continue
		}
		f.Raw = append(f.Raw, s)
		f.Scripts = append(f.Scripts, skeleton(s))
	}
	return f
}

// skeleton turns a script template into a regular expression over the
// whitespace-normalised statement text. A placeholder standing alone between
// spaces may render to nothing or to a phrase; a placeholder glued to literal
// text renders to a single token.
func skeleton(tpl string) *regexp.Regexp {
	sk := reTpl.ReplaceAllString(tpl, "\x00")
	sk = strings.TrimSpace(reWS.ReplaceAllString(sk, " "))
	sk = strings.TrimSpace(strings.TrimSuffix(sk, ";"))
	var b strings.Builder
	b.WriteString(`^\s*`)
	for i := 0; i < len(sk); i++ {
		ch := sk[i]
		switch {
		case ch == ' ' && i+1 < len(sk) && sk[i+1] == 0 && (i+2 == len(sk) || sk[i+2] == ' '):
			// SP P (SP|END): optional phrase, consumes the leading space
			b.WriteString(`(?:\s+\S.*?)?`)
			i++
		case ch == 0:
			if i == 0 && (len(sk) == 1 || sk[1] == ' ') {
				b.WriteString(`(?:\S.*?)?`)
			} else {
				b.WriteString(`.*?`)
			}
		case ch == ' ':
			b.WriteString(`\s+`)
		default:
			b.WriteString(regexp.QuoteMeta(string(ch)))
		}
	}
	b.WriteString(`\s*;?$`)
	return regexp.MustCompile(b.String())
}

var scriptFilesCache []*scriptFile

func scriptFiles() []*scriptFile {
	if scriptFilesCache != nil {
		return scriptFilesCache
	}
	scriptFilesCache = buildScriptFiles()
	return scriptFilesCache
}

func buildScriptFiles() []*scriptFile {
	return []*scriptFile{
		splitScripts("log", false, sql.LogScript),
		splitScripts("log_dist", true, sql.LogDistScript),
		splitScripts("traces", false, sql.TracesScript),
		splitScripts("traces_dist", true, sql.TracesDistScript),
		splitScripts("profiles", false, sql.ProfilesScript),
		splitScripts("profiles_dist", true, sql.ProfilesDistScript),
	}
}

// scriptTracker is the order/skip/version oracle. For every script file it
// tracks the completed prefix P: scripts 0..P-1 have each been applied at least
// once, in order.
type scriptTracker struct {
	files   []*scriptFile
	prefix  map[string]int
	fileOfK map[int64]string // learned: stream k -> file, from the statement order
	lastScr struct {
		file string
		idx  int
		proc int
		ok   bool
	}
	viol []*simcheck.Violation
	// cluster: name of the cluster when the run is in clustered mode
	cluster string
}

func newTracker() *scriptTracker {
	return &scriptTracker{files: scriptFiles(), prefix: map[string]int{}, fileOfK: map[int64]string{}}
}

type cand = struct {
	f   *scriptFile
	idx int
}

var candCache = map[string][]cand{}

func (tr *scriptTracker) candidates(sqlText string) (res []cand) {
	if c, ok := candCache[sqlText]; ok {
		return c
	}
	defer func() { candCache[sqlText] = res }()
	for _, f := range tr.files {
		for i, re := range f.Scripts {
			if re.MatchString(sqlText) {
				res = append(res, cand{f, i})
			}
		}
	}
	return
}

func (tr *scriptTracker) addViol(oracle, sig, detail string) {
	tr.viol = append(tr.viol, &simcheck.Violation{Property: "C18", Oracle: oracle, Signature: sig, Detail: detail})
}

// onApply is called for every statement the database applied.
func (tr *scriptTracker) onApply(st *ddl.Stmt) {
	if tr.cluster != "" {
		// a schema statement without ON CLUSTER changes the node the process happens to be connected to and no other:
		// the nodes of the cluster end up with different schemas, although every statement succeeds
		switch st.Class {
		case "create-table", "create-view", "drop", "rename", "alter":
			if !strings.Contains(strings.ToUpper(st.SQL), "ON CLUSTER") {
				tr.addViol("schema-statement-on-one-node-only", fmt.Sprintf("clustered mode, no ON CLUSTER: %.70s", st.SQL),
					"in clustered mode the statement "+st.SQL+" carries no ON CLUSTER clause: it is applied on one node only")
			}
		}
	}
	switch st.Class {
	case "insert-ver":
		k, _ := st.Args[0].(int64)
		var n uint64
		switch v := st.Args[1].(type) {
		case uint64:
			n = v
		case int64:
			n = uint64(v)
		case int:
			n = uint64(v)
		}
		// learn / check the stream -> file association from the script executed just before
		if tr.lastScr.ok && tr.lastScr.proc == st.Proc {
			if f, seen := tr.fileOfK[k]; !seen {
				tr.fileOfK[k] = tr.lastScr.file
			} else if f != tr.lastScr.file {
				tr.addViol("version-stream-mixup", fmt.Sprintf("ver k=%d written after script of %s, stream belongs to %s", k, tr.lastScr.file, f),
					"a version row of one migration stream was written after a script of another stream")
			}
		}
		f, ok := tr.fileOfK[k]
		if !ok {
			tr.addViol("version-without-script", fmt.Sprintf("ver k=%d n=%d no script executed", k, n),
				"a version row was written although no migration script ran in this process")
			return
		}
		if int(n) > tr.prefix[f] {
			tr.addViol("version-ahead-of-scripts", fmt.Sprintf("file=%s ver=%d completed-prefix=%d", f, n, tr.prefix[f]),
				fmt.Sprintf("version %d of stream k=%d (%s) recorded, but only scripts 1..%d have completed", n, k, f, tr.prefix[f]))
		}
		tr.lastScr.ok = false
		return
	case "select-ver", "select-setting", "show-tables", "create-db":
		return
	}
	c := tr.candidates(st.SQL)
	if len(c) == 0 {
		return // bookkeeping statement (ver table creation etc.)
	}
	// attribute: prefer the candidate that advances a prefix, then a re-execution, else out of order
	for _, x := range c {
		if tr.prefix[x.f.Name] == x.idx {
			tr.prefix[x.f.Name]++
			tr.lastScr.file, tr.lastScr.idx, tr.lastScr.proc, tr.lastScr.ok = x.f.Name, x.idx, st.Proc, true
			return
		}
	}
	for _, x := range c {
		if x.idx < tr.prefix[x.f.Name] {
			tr.lastScr.file, tr.lastScr.idx, tr.lastScr.proc, tr.lastScr.ok = x.f.Name, x.idx, st.Proc, true
			return
		}
	}
	x := c[0]
	tr.addViol("script-out-of-order", fmt.Sprintf("file=%s script#%d executed with completed-prefix=%d", x.f.Name, x.idx+1, tr.prefix[x.f.Name]),
		fmt.Sprintf("script #%d of %s was executed although script #%d never completed (skipped or reordered)", x.idx+1, x.f.Name, tr.prefix[x.f.Name]+1))
	tr.lastScr.file, tr.lastScr.idx, tr.lastScr.proc, tr.lastScr.ok = x.f.Name, x.idx, st.Proc, true
}

func (tr *scriptTracker) isScript(sqlText string) bool { return len(tr.candidates(sqlText)) > 0 }

// runUpdate executes one incarnation of maintenance.Update.
func runUpdate(st *ddl.State, proc int, log *[]ddl.Stmt, faults map[int]ddl.FaultKind, cfg Cfg, onApply func(*ddl.Stmt)) (err error, crashed bool, conn *ddl.Conn) {
	return runUpdateOn(st, proc, 0, log, faults, cfg, onApply)
}

// runUpdateOn executes one incarnation connected to the given cluster node.
func runUpdateOn(st *ddl.State, proc, node int, log *[]ddl.Stmt, faults map[int]ddl.FaultKind, cfg Cfg, onApply func(*ddl.Stmt)) (err error, crashed bool, conn *ddl.Conn) {
	conn = ddl.NewConn(st, proc, log, faults)
	if cfg.Cluster != "" {
		conn.Node = node
	}
	conn.OnApply = onApply
	defer func() {
		if r := recover(); r != nil {
			if _, ok := r.(ddl.Crash); ok {
				crashed = true
				return
			}
			panic(r)
		}
	}()
	err = maintenance.Update(conn, "qryn", cfg.Cluster, cfg.mode(), cfg.TTLDays, cfg.StoragePolicy, cfg.Ordering, cfg.SkipUnavail, nopLogger{})
	return
}

const maxRestarts = 3

type c18Sample struct {
	Cfg        Cfg      `json:"cfg"`
	Faults     []string `json:"faults_fired"`
	Procs      int      `json:"process_incarnations"`
	Statements int      `json:"statements"`
	Outcome    string   `json:"outcome"`
}

// referenceRun performs the uninterrupted run for a configuration.
func referenceRun(cfg Cfg) (*ddl.State, []ddl.Stmt, *scriptTracker, error) {
	st := ddl.NewState()
	var log []ddl.Stmt
	tr := newTracker()
	tr.cluster = cfg.Cluster
	err, crashed, _ := runUpdate(st, 0, &log, nil, cfg, tr.onApply)
	if crashed {
		return st, log, tr, fmt.Errorf("crash without fault")
	}
	return st, log, tr, err
}

// RunC18 executes a scenario and evaluates every C18 oracle.
func RunC18(s C18Scenario) *simcheck.RunInfo {
	ri := &simcheck.RunInfo{Faults: map[string]int{}, Probes: map[string]int{}}
	h := fnv.New64a()
	add := func(v *simcheck.Violation) { ri.Violations = append(ri.Violations, v) }

	// uninterrupted reference with the final configuration
	final := s.Cfg
	for _, p := range s.Procs {
		if p.Cfg != nil {
			final = *p.Cfg
			// the deployment mode and the samples ordering are fixed for a database: tables keep the
			// engine and sorting key they were created with, so changing them between restarts
			// legitimately yields a schema no uninterrupted run produces
			final.Cloud, final.Cluster, final.Ordering = s.Cfg.Cloud, s.Cfg.Cluster, s.Cfg.Ordering
		}
	}
	refState, refLog, refTr, refErr := referenceRun(final)
	if refErr != nil {
		add(&simcheck.Violation{Property: "C18", Oracle: "uninterrupted-run-fails", Signature: "uninterrupted run: " + refErr.Error(),
			Detail: "initialisation fails on an empty database without any fault: " + refErr.Error()})
		return ri
	}
	ri.Violations = append(ri.Violations, refTr.viol...)
	for _, f := range refTr.files {
		if f.Dist && final.Cluster == "" {
			continue
		}
		if refTr.prefix[f.Name] != len(f.Scripts) {
			add(&simcheck.Violation{Property: "C18", Oracle: "scripts-skipped", Signature: fmt.Sprintf("uninterrupted file=%s completed=%d of %d", f.Name, refTr.prefix[f.Name], len(f.Scripts)),
				Detail: fmt.Sprintf("an uninterrupted initialisation completed only %d of the %d scripts of %s", refTr.prefix[f.Name], len(f.Scripts), f.Name)})
		}
	}
	for k, f := range refTr.fileOfK {
		for _, sf := range refTr.files {
			if sf.Name == f && refState.MaxVer(k) != uint64(len(sf.Scripts)) {
				add(&simcheck.Violation{Property: "C18", Oracle: "version-mismatch", Signature: fmt.Sprintf("uninterrupted file=%s ver=%d scripts=%d", f, refState.MaxVer(k), len(sf.Scripts)),
					Detail: "after an uninterrupted run the recorded version differs from the number of scripts"})
			}
		}
	}

	st := ddl.NewState()
	var log []ddl.Stmt
	tr := newTracker()
	tr.cluster = s.Cfg.Cluster
	cfg := s.Cfg
	proc := 0
	var fired []string
	var lastErr error
	done := false
	crashedLast := false
	lastNode := 0
	for _, p := range s.Procs {
		if p.Cfg != nil {
			c := *p.Cfg
			c.Cloud, c.Cluster, c.Ordering = s.Cfg.Cloud, s.Cfg.Cluster, s.Cfg.Ordering
			cfg = c
		}
		fm := map[int]ddl.FaultKind{}
		for _, f := range p.Faults {
			fm[f.Idx] = ddl.FaultKind(f.Kind)
		}
		before := len(log)
		err, crashed, conn := runUpdateOn(st, proc, p.Node, &log, fm, cfg, tr.onApply)
		lastNode = p.Node
		if p.Node != 0 && cfg.Cluster != "" {
			ri.Probes["incarnation-on-other-node"]++
		}
		for k, n := range conn.Fired {
			ri.Faults[k.String()] += n
		}
		for _, e := range log[before:] {
			if e.Fault != ddl.FaultNone && (e.Err != "") {
				fired = append(fired, fmt.Sprintf("proc%d stmt#%d %s %s: %.60s", proc, e.Idx, e.Fault, e.Class, e.SQL))
				fmt.Fprintf(h, "%s|%s|%s;", e.Fault, e.Class, skeletonOf(tr, e.SQL))
				if e.Class == "insert-ver" {
					ri.Probes["fault-at-version-write"]++
				} else if tr.isScript(e.SQL) {
					ri.Probes["fault-at-script"]++
				} else {
					ri.Probes["fault-at-bookkeeping"]++
				}
			}
		}
		proc++
		lastErr, crashedLast = err, crashed
		done = err == nil && !crashed
	}
	// fault-free restarts until initialisation completes
	restarts := 0
	for !done && restarts < maxRestarts {
		// a restarted process may reach the cluster through another node
		lastNode = 1 - lastNode
		err, crashed, _ := runUpdateOn(st, proc, lastNode, &log, nil, cfg, tr.onApply)
		proc++
		restarts++
		lastErr, crashedLast = err, crashed
		done = err == nil && !crashed
		if crashed {
			panic("crash without fault")
		}
	}
	if restarts > 0 {
		ri.Probes["restart-needed"]++
	}
	ri.Violations = append(ri.Violations, tr.viol...)
	outcome := "converged"
	if !done {
		outcome = "stuck"
		// signature: the statement that keeps failing
		var failing ddl.Stmt
		for i := len(log) - 1; i >= 0; i-- {
			if log[i].Err != "" {
				failing = log[i]
				break
			}
		}
		_ = crashedLast
		add(&simcheck.Violation{Property: "C18", Oracle: "restart-does-not-complete",
			Signature: fmt.Sprintf("stuck at: %.80s", failing.SQL),
			Detail:    fmt.Sprintf("after the injected faults %v, %d fault-free restarts all fail with %v at statement %q", fired, maxRestarts, lastErr, failing.SQL)})
	} else {
		// same schema as the uninterrupted run
		if got, want := st.Describe(), refState.Describe(); got != want {
			add(&simcheck.Violation{Property: "C18", Oracle: "schema-differs", Signature: "schema differs: " + firstDiff(got, want),
				Detail: fmt.Sprintf("after faults %v and restarts the schema differs from the uninterrupted run: %s", fired, firstDiff(got, want))})
		}
		for _, f := range tr.files {
			if f.Dist && cfg.Cluster == "" {
				continue
			}
			if tr.prefix[f.Name] != len(f.Scripts) {
				add(&simcheck.Violation{Property: "C18", Oracle: "scripts-skipped", Signature: fmt.Sprintf("file=%s completed=%d of %d", f.Name, tr.prefix[f.Name], len(f.Scripts)),
					Detail: fmt.Sprintf("initialisation reported success but only %d of the %d scripts of %s completed", tr.prefix[f.Name], len(f.Scripts), f.Name)})
			}
		}
		for k := range refState.Ver {
			if st.MaxVer(k) != refState.MaxVer(k) {
				add(&simcheck.Violation{Property: "C18", Oracle: "version-mismatch", Signature: fmt.Sprintf("k=%d ver=%d want=%d", k, st.MaxVer(k), refState.MaxVer(k)),
					Detail: "recorded version after recovery differs from the uninterrupted run"})
			}
		}
		// up to date => no migration script is executed
		before := len(log)
		err, _, _ := runUpdateOn(st, proc, 1-lastNode, &log, nil, cfg, tr.onApply)
		if err != nil {
			add(&simcheck.Violation{Property: "C18", Oracle: "rerun-fails", Signature: "rerun on up-to-date db: " + err.Error(), Detail: err.Error()})
		}
		for _, e := range log[before:] {
			if tr.isScript(e.SQL) || e.Class == "insert-ver" {
				add(&simcheck.Violation{Property: "C18", Oracle: "rerun-executes-script", Signature: fmt.Sprintf("rerun executes: %.80s", e.SQL),
					Detail: "initialisation of an up-to-date database executed a migration statement: " + e.SQL})
				break
			}
		}
	}
	ri.NonTrivial = len(fired) > 0
	fmt.Fprintf(h, "cloud=%v cluster=%v", s.Cfg.Cloud, s.Cfg.Cluster != "")
	ri.Hash = h.Sum64()
	ri.Steps = int64(len(log) + len(refLog))
	ri.Sample = c18Sample{Cfg: s.Cfg, Faults: fired, Procs: proc, Statements: len(log), Outcome: outcome}
	return ri
}

func skeletonOf(tr *scriptTracker, sqlText string) string {
	c := tr.candidates(sqlText)
	if len(c) == 0 {
		if len(sqlText) > 40 {
			return sqlText[:40]
		}
		return sqlText
	}
	return fmt.Sprintf("%s#%d", c[0].f.Name, c[0].idx)
}

func firstDiff(a, b string) string {
	al, bl := strings.Split(a, "\n"), strings.Split(b, "\n")
	am := map[string]bool{}
	for _, l := range al {
		am[l] = true
	}
	bm := map[string]bool{}
	for _, l := range bl {
		bm[l] = true
	}
	for _, l := range al {
		if !bm[l] {
			return "unexpected: " + l
		}
	}
	for _, l := range bl {
		if !am[l] {
			return "missing: " + l
		}
	}
	return "order"
}
