package ctrlsim

import (
	"fmt"
	"os"
	"testing"

	"github.com/metrico/qryn/zz_verif/ddl"
	"github.com/metrico/qryn/zz_verif/simcheck"
	"pgregory.net/rapid"
)

var tierSeconds = []int64{1, 30, 59, 60, 61, 3600, 86399, 86400, 86401, 7 * 86400, 30 * 86400, 365 * 86400, 3650 * 86400, 36500 * 86400}

func genRotCfg(rt *rapid.T, label string) RotCfg {
	c := RotCfg{
		TTLDays:       rapid.SampledFrom([]int{1, 7, 30, 365}).Draw(rt, label+".ttl"),
		StoragePolicy: rapid.SampledFrom([]string{"", "", "tiered", "other"}).Draw(rt, label+".policy"),
	}
	n := rapid.IntRange(0, 3).Draw(rt, label+".tiers")
	for i := 0; i < n; i++ {
		c.Tiers = append(c.Tiers, Tier{
			Seconds: rapid.SampledFrom(tierSeconds).Draw(rt, fmt.Sprintf("%s.t%d.sec", label, i)),
			MoveTo:  rapid.SampledFrom([]string{"cold", "s3", ""}).Draw(rt, fmt.Sprintf("%s.t%d.disk", label, i)),
		})
	}
	return c
}

func genC19(rt *rapid.T) C19Scenario {
	s := C19Scenario{Cluster: rapid.SampledFrom([]string{"", "c1"}).Draw(rt, "cluster")}
	n := rapid.IntRange(1, 4).Draw(rt, "runs")
	for i := 0; i < n; i++ {
		r := RotRun{}
		if i > 0 && rapid.Bool().Draw(rt, fmt.Sprintf("r%d.same", i)) {
			r.Cfg = s.Runs[i-1].Cfg
		} else {
			r.Cfg = genRotCfg(rt, fmt.Sprintf("r%d", i))
		}
		r.Faults = genFaults(rt, fmt.Sprintf("r%d.f", i), 45, 2)
		s.Runs = append(s.Runs, r)
	}
	return s
}

func enumCfgs() []RotCfg {
	return []RotCfg{
		{TTLDays: 7},
		{TTLDays: 7, StoragePolicy: "tiered"},
		{TTLDays: 30, Tiers: []Tier{{Seconds: 30, MoveTo: "cold"}, {Seconds: 7 * 86400, MoveTo: "s3"}}, StoragePolicy: "tiered"},
		{TTLDays: 365, Tiers: []Tier{{Seconds: 3600, MoveTo: "cold"}}},
	}
}

// TestC19 = exhaustive single-fault sweep over the statements of a retention run
// (fresh and after a configuration change), then seeded exploration.
func TestC19(t *testing.T) {
	c := simcheck.NewCollector("ctrl-rotate")
	defer c.Flush()
	defer func() {
		if r := recover(); r != nil {
			c.HarnessError(fmt.Sprint(r))
			t.Errorf("HARNESS-ERROR %v", r)
		}
	}()
	if os.Getenv("VERIF_REPLAY") == "" && os.Getenv("VERIF_NO_ENUM") == "" {
		total := 0
		seen := map[string]bool{}
		for _, cluster := range []string{"", "c1"} {
			for ci, cfg := range enumCfgs() {
				// statements of an uninterrupted run
				st := initialState(cluster)
				var log []ddl.Stmt
				runRotate(st, 0, &log, nil, cluster, cfg)
				for i := 0; i <= len(log); i++ {
					for k := ddl.FailBefore; k <= ddl.CrashBefore; k++ {
						scs := []C19Scenario{{Cluster: cluster, Runs: []RotRun{{Cfg: cfg, Faults: []FaultAt{{Idx: i, Kind: int(k)}}}}}}
						// the same fault during a run that follows a configuration change
						prev := enumCfgs()[(ci+1)%len(enumCfgs())]
						scs = append(scs, C19Scenario{Cluster: cluster, Runs: []RotRun{{Cfg: prev}, {Cfg: cfg, Faults: []FaultAt{{Idx: i, Kind: int(k)}}}}})
						for _, s := range scs {
							if v := simcheck.Single(c, "C19", s, RunC19); v != nil && !seen[v.Oracle+v.Signature] {
								seen[v.Oracle+v.Signature] = true
								t.Errorf("VIOLATION %s", v)
							}
							total++
						}
					}
				}
			}
		}
		c.Note("enumeration", fmt.Sprintf("single-fault sweep: %d runs = every statement of the uninterrupted retention run x 4 fault kinds x 4 configurations x {fresh, after a configuration change} x {single, clustered} (exhaustive)", total))
	}
	simcheck.Explore(t, c, "C19", genC19, RunC19)
}
