// instr rewrites a scratch copy of the repository so that goroutine starts,
// mutex operations, blocking channel statements and receive-only selects go
// through zz_verif/simrt. Semantics are preserved (outside a simulation every
// hook degrades to the plain operation).
//
//	instr -root <tree> ./writer/... ./reader/...
package main

import (
	"bytes"
	"flag"
	"fmt"
	"go/ast"
	"go/format"
	"go/printer"
	"go/token"
	"go/types"
	"os"
	"path/filepath"
	"strings"

	"golang.org/x/tools/go/ast/astutil"
	"golang.org/x/tools/go/packages"
)

const rtPath = "github.com/metrico/qryn/zz_verif/simrt"

type stats struct{ gos, locks, yields, selects, exits, files, preempts, mapacc int }

var st stats

var preempt bool

func main() {
	root := flag.String("root", ".", "module root of the scratch tree")
	flag.BoolVar(&preempt, "preempt", true, "insert possible preemption points at function entries and loop bodies")
	flag.Parse()
	cfg := &packages.Config{
		Mode: packages.NeedName | packages.NeedFiles | packages.NeedSyntax | packages.NeedTypes | packages.NeedTypesInfo | packages.NeedImports | packages.NeedCompiledGoFiles,
		Dir:  *root,
	}
	pkgs, err := packages.Load(cfg, flag.Args()...)
	if err != nil {
		fmt.Fprintln(os.Stderr, "load:", err)
		os.Exit(2)
	}
	for _, p := range pkgs {
		if strings.Contains(p.PkgPath, "/zz_verif") {
			continue
		}
		if len(p.Errors) > 0 {
			// packages that do not build in the unchanged repository are skipped (nothing imports them)
			fmt.Printf("skip %s: %v\n", p.PkgPath, p.Errors[0])
			continue
		}
		for i, f := range p.Syntax {
			name := p.CompiledGoFiles[i]
			if strings.HasSuffix(name, "_test.go") || strings.HasSuffix(name, ".pb.go") {
				continue
			}
			in := &instr{pkg: p, fset: p.Fset, file: f, name: filepath.Base(name)}
			in.run()
			if !in.changed {
				continue
			}
			dropBodyComments(f)
			astutil.AddNamedImport(p.Fset, f, "simrt", rtPath)
			if in.exits > 0 && !astutil.UsesImport(f, "os") {
				astutil.DeleteImport(p.Fset, f, "os")
			}
			var buf bytes.Buffer
			if err := format.Node(&buf, p.Fset, f); err != nil {
				fmt.Fprintln(os.Stderr, "format", name, err)
				var raw bytes.Buffer
				printer.Fprint(&raw, p.Fset, f)
				os.WriteFile(name+".instr-failed", raw.Bytes(), 0o644)
				os.Exit(2)
			}
			if err := os.WriteFile(name, buf.Bytes(), 0o644); err != nil {
				fmt.Fprintln(os.Stderr, err)
				os.Exit(2)
			}
			st.files++
		}
	}
	fmt.Printf("instrumented: files=%d go=%d lock-ops=%d yields=%d selects=%d exits=%d preempts=%d map-accesses=%d\n", st.files, st.gos, st.locks, st.yields, st.selects, st.exits, st.preempts, st.mapacc)
}

// dropBodyComments removes the comments inside function bodies: inserted statements carry no positions and
// the printer would otherwise weave a comment into the middle of one. Comments outside bodies (build
// constraints, //go: directives, documentation) are kept.
func dropBodyComments(f *ast.File) {
	type span struct{ lo, hi token.Pos }
	var bodies []span
	ast.Inspect(f, func(n ast.Node) bool {
		switch v := n.(type) {
		case *ast.FuncDecl:
			if v.Body != nil {
				bodies = append(bodies, span{v.Body.Lbrace, v.Body.Rbrace})
			}
			return false
		case *ast.FuncLit:
			bodies = append(bodies, span{v.Body.Lbrace, v.Body.Rbrace})
			return false
		}
		return true
	})
	var keep []*ast.CommentGroup
outer:
	for _, cg := range f.Comments {
		for _, b := range bodies {
			if cg.Pos() > b.lo && cg.Pos() < b.hi {
				continue outer
			}
		}
		keep = append(keep, cg)
	}
	f.Comments = keep
}

type instr struct {
	pkg     *packages.Package
	fset    *token.FileSet
	file    *ast.File
	name    string
	changed bool
	tmp     int
	exits   int
}

func (in *instr) site(n ast.Node) *ast.BasicLit {
	p := in.fset.Position(n.Pos())
	return &ast.BasicLit{Kind: token.STRING, Value: fmt.Sprintf("%q", fmt.Sprintf("%s:%d", in.name, p.Line))}
}

func rt(fn string) ast.Expr {
	return &ast.SelectorExpr{X: ast.NewIdent("simrt"), Sel: ast.NewIdent(fn)}
}

func (in *instr) yieldStmt(n ast.Node) ast.Stmt {
	st.yields++
	in.changed = true
	return &ast.ExprStmt{X: &ast.CallExpr{Fun: rt("Yield"), Args: []ast.Expr{in.site(n)}}}
}

// preemptInto puts a possible preemption point at the top of a function or loop body: code between two
// synchronisation operations is not atomic on a real machine, and the scheduler may pick a few of these
// visits per run to switch goroutines (simrt.Preempt costs one counter increment otherwise).
func (in *instr) preemptInto(b *ast.BlockStmt, n ast.Node) {
	if !preempt || b == nil {
		return
	}
	st.preempts++
	in.changed = true
	call := &ast.ExprStmt{X: &ast.CallExpr{Fun: rt("Preempt"), Args: []ast.Expr{in.site(n)}}}
	b.List = append([]ast.Stmt{call}, b.List...)
}

func (in *instr) run() {
	for _, d := range in.file.Decls {
		fd, ok := d.(*ast.FuncDecl)
		if !ok || fd.Body == nil {
			continue
		}
		in.block(fd.Body)
		if fd.Name.Name != "init" {
			in.preemptInto(fd.Body, fd)
		}
	}
	// function literals at package level (var x = func(){...})
	for _, d := range in.file.Decls {
		if gd, ok := d.(*ast.GenDecl); ok {
			ast.Inspect(gd, func(n ast.Node) bool {
				if fl, ok := n.(*ast.FuncLit); ok {
					in.block(fl.Body)
					return false
				}
				return true
			})
		}
	}
}

func (in *instr) typeOf(e ast.Expr) types.Type {
	if tv, ok := in.pkg.TypesInfo.Types[e]; ok {
		return tv.Type
	}
	return nil
}

func under(t types.Type) types.Type {
	if t == nil {
		return nil
	}
	return t.Underlying()
}

func isChan(t types.Type) bool {
	if t == nil {
		return false
	}
	_, ok := t.Underlying().(*types.Chan)
	return ok
}

// methodOf returns the full name of the method a call expression invokes, e.g. "(*sync.Mutex).Lock".
func (in *instr) methodOf(call *ast.CallExpr) (string, *ast.SelectorExpr) {
	sel, ok := call.Fun.(*ast.SelectorExpr)
	if !ok {
		return "", nil
	}
	if s, ok := in.pkg.TypesInfo.Selections[sel]; ok {
		if f, ok := s.Obj().(*types.Func); ok {
			return f.FullName(), sel
		}
	}
	if obj, ok := in.pkg.TypesInfo.Uses[sel.Sel]; ok {
		if f, ok := obj.(*types.Func); ok {
			return f.FullName(), sel
		}
	}
	return "", sel
}

// blocking reports whether evaluating n (not descending into function literals)
// performs a channel operation or a known blocking call.
func (in *instr) blocking(n ast.Node) bool {
	found := false
	ast.Inspect(n, func(x ast.Node) bool {
		if found {
			return false
		}
		switch v := x.(type) {
		case *ast.FuncLit:
			return false
		case *ast.SendStmt:
			found = true
		case *ast.UnaryExpr:
			if v.Op == token.ARROW {
				found = true
			}
		case *ast.CallExpr:
			if id, ok := v.Fun.(*ast.Ident); ok && id.Name == "close" && len(v.Args) == 1 && isChan(in.typeOf(v.Args[0])) {
				found = true
			}
			name, _ := in.methodOf(v)
			switch name {
			case "(*sync.WaitGroup).Wait", "time.Sleep", "(*sync.Cond).Wait":
				found = true
			}
		}
		return true
	})
	return found
}

func (in *instr) block(b *ast.BlockStmt) {
	if b == nil {
		return
	}
	b.List = in.stmts(b.List)
}

func terminating(s ast.Stmt) bool {
	switch v := s.(type) {
	case *ast.ReturnStmt, *ast.BranchStmt:
		return true
	case *ast.ExprStmt:
		if c, ok := v.X.(*ast.CallExpr); ok {
			if id, ok := c.Fun.(*ast.Ident); ok && id.Name == "panic" {
				return true
			}
		}
	}
	return false
}

// funcLits instruments the bodies of function literals found inside n (not nested statements, which are handled by stmts).
func (in *instr) funcLits(n ast.Node) {
	ast.Inspect(n, func(x ast.Node) bool {
		if fl, ok := x.(*ast.FuncLit); ok {
			in.block(fl.Body)
			in.preemptInto(fl.Body, fl)
			return false
		}
		return true
	})
}

func (in *instr) stmts(list []ast.Stmt) []ast.Stmt {
	var out []ast.Stmt
	for _, s := range list {
		out = append(out, in.stmt(s)...)
	}
	return out
}

func (in *instr) lockCall(call *ast.CallExpr) bool {
	name, sel := in.methodOf(call)
	var fn string
	switch name {
	case "(*sync.Mutex).Lock", "(*sync.RWMutex).Lock":
		fn = "Lock"
	case "(*sync.Mutex).Unlock", "(*sync.RWMutex).Unlock":
		fn = "Unlock"
	case "(*sync.RWMutex).RLock":
		fn = "RLock"
	case "(*sync.RWMutex).RUnlock":
		fn = "RUnlock"
	default:
		return false
	}
	recv := sel.X
	t := in.typeOf(recv)
	if t == nil {
		return false
	}
	var arg ast.Expr = recv
	if _, isPtr := t.Underlying().(*types.Pointer); !isPtr {
		arg = &ast.UnaryExpr{Op: token.AND, X: recv}
	}
	site := in.site(call)
	call.Fun = rt(fn)
	call.Args = []ast.Expr{site, arg}
	st.locks++
	in.changed = true
	return true
}

func (in *instr) exitCall(call *ast.CallExpr) bool {
	name, _ := in.methodOf(call)
	if name != "os.Exit" {
		return false
	}
	call.Fun = rt("Exit")
	st.exits++
	in.exits++
	in.changed = true
	return true
}

// rewriteCalls rewrites lock and exit calls anywhere inside n (outside nested statements lists handled elsewhere it is harmless to repeat).
func (in *instr) rewriteCalls(n ast.Node) {
	ast.Inspect(n, func(x ast.Node) bool {
		switch v := x.(type) {
		case *ast.FuncLit:
			return false
		case *ast.CallExpr:
			if !in.lockCall(v) {
				in.exitCall(v)
			}
		}
		return true
	})
}

func (in *instr) stmt(s ast.Stmt) []ast.Stmt {
	pre := in.mapAccesses(s)
	if len(pre) == 0 {
		return in.stmt1(s)
	}
	return append(pre, in.stmt1(s)...)
}

// ---- accesses to shared Go maps (lock discipline, see simrt.MapAccess)

// sharedMapExpr: a map-typed expression that can name state shared between goroutines - a package-level variable or a
// field path (x.f, x.f.g, (*p).f); plain local variables are left alone.
func (in *instr) sharedMapExpr(e ast.Expr) bool {
	t := in.typeOf(e)
	if t == nil {
		return false
	}
	if _, ok := t.Underlying().(*types.Map); !ok {
		return false
	}
	return in.purePath(e, true)
}

func (in *instr) purePath(e ast.Expr, top bool) bool {
	switch v := e.(type) {
	case *ast.Ident:
		if !top {
			return true
		}
		obj := in.pkg.TypesInfo.Uses[v]
		if obj == nil {
			return false
		}
		_, isVar := obj.(*types.Var)
		return isVar && obj.Parent() == obj.Pkg().Scope()
	case *ast.SelectorExpr:
		if id, ok := v.X.(*ast.Ident); ok {
			if _, isPkg := in.pkg.TypesInfo.Uses[id].(*types.PkgName); isPkg {
				return true // pkg.Var
			}
		}
		return in.purePath(v.X, false)
	case *ast.ParenExpr:
		return in.purePath(v.X, top)
	case *ast.StarExpr:
		return in.purePath(v.X, false)
	}
	return false
}

// mapAccesses returns marker statements for the shared-map accesses that statement s itself performs (not the ones in
// its nested blocks or function literals, which are visited on their own).
func (in *instr) mapAccesses(s ast.Stmt) []ast.Stmt {
	var roots []ast.Node
	writes := map[ast.Expr]bool{}
	switch v := s.(type) {
	case *ast.AssignStmt:
		for _, l := range v.Lhs {
			if ix, ok := l.(*ast.IndexExpr); ok {
				writes[ix.X] = true
			}
		}
		roots = append(roots, v)
	case *ast.IncDecStmt:
		if ix, ok := v.X.(*ast.IndexExpr); ok {
			writes[ix.X] = true
		}
		roots = append(roots, v)
	case *ast.ExprStmt, *ast.ReturnStmt, *ast.SendStmt, *ast.DeclStmt:
		roots = append(roots, v)
	case *ast.IfStmt:
		if v.Init != nil {
			if as, ok := v.Init.(*ast.AssignStmt); ok {
				for _, l := range as.Lhs {
					if ix, ok := l.(*ast.IndexExpr); ok {
						writes[ix.X] = true
					}
				}
			}
			roots = append(roots, v.Init)
		} else {
			// (with an init statement the condition may name variables that do not exist before the if)
			roots = append(roots, v.Cond)
		}
	case *ast.ForStmt:
		if v.Cond != nil && v.Init == nil {
			roots = append(roots, v.Cond)
		}
	case *ast.SwitchStmt:
		if v.Tag != nil && v.Init == nil {
			roots = append(roots, v.Tag)
		}
	case *ast.RangeStmt:
		roots = append(roots, v.X)
	default:
		return nil
	}
	type acc struct {
		e     ast.Expr
		write bool
	}
	var found []acc
	seen := map[string]bool{}
	note := func(e ast.Expr, w bool) {
		if !in.sharedMapExpr(e) {
			return
		}
		k := fmt.Sprintf("%s|%v", types.ExprString(e), w)
		if seen[k] {
			return
		}
		seen[k] = true
		found = append(found, acc{e, w})
	}
	for _, r := range roots {
		ast.Inspect(r, func(n ast.Node) bool {
			switch x := n.(type) {
			case *ast.FuncLit:
				return false
			case *ast.IndexExpr:
				note(x.X, writes[x.X])
			case *ast.CallExpr:
				if id, ok := x.Fun.(*ast.Ident); ok && len(x.Args) > 0 {
					switch id.Name {
					case "delete", "clear":
						if _, isBuiltin := in.pkg.TypesInfo.Uses[id].(*types.Builtin); isBuiltin {
							note(x.Args[0], true)
						}
					case "len":
						if _, isBuiltin := in.pkg.TypesInfo.Uses[id].(*types.Builtin); isBuiltin {
							note(x.Args[0], false)
						}
					}
				}
			}
			return true
		})
	}
	if rs, ok := s.(*ast.RangeStmt); ok {
		note(rs.X, false)
	}
	var out []ast.Stmt
	for _, a := range found {
		st.mapacc++
		in.changed = true
		w := "false"
		if a.write {
			w = "true"
		}
		get := &ast.FuncLit{Type: &ast.FuncType{Params: &ast.FieldList{}, Results: &ast.FieldList{List: []*ast.Field{{Type: ast.NewIdent("any")}}}},
			Body: &ast.BlockStmt{List: []ast.Stmt{&ast.ReturnStmt{Results: []ast.Expr{a.e}}}}}
		out = append(out, &ast.ExprStmt{X: &ast.CallExpr{Fun: rt("MapAccess"), Args: []ast.Expr{get, ast.NewIdent(w), in.site(s)}}})
	}
	return out
}

func (in *instr) stmt1(s ast.Stmt) []ast.Stmt {
	switch v := s.(type) {
	case *ast.BlockStmt:
		in.block(v)
		return []ast.Stmt{v}
	case *ast.LabeledStmt:
		r := in.stmt(v.Stmt)
		// keep the label on the statement itself (loops need it); yields go around
		var pre, post []ast.Stmt
		idx := -1
		for i, x := range r {
			if x == v.Stmt {
				idx = i
			}
		}
		if idx < 0 {
			return []ast.Stmt{v}
		}
		pre, post = r[:idx], r[idx+1:]
		res := append([]ast.Stmt{}, pre...)
		res = append(res, v)
		return append(res, post...)
	case *ast.IfStmt:
		in.funcLits(v.Cond)
		if v.Init != nil {
			in.funcLits(v.Init)
			in.rewriteCalls(v.Init)
		}
		in.rewriteCalls(v.Cond)
		in.block(v.Body)
		if v.Else != nil {
			switch e := v.Else.(type) {
			case *ast.BlockStmt:
				in.block(e)
			case *ast.IfStmt:
				r := in.stmt(e)
				if len(r) == 1 {
					v.Else = r[0]
				} else {
					v.Else = &ast.BlockStmt{List: r}
				}
			}
		}
		pre := (v.Init != nil && in.blocking(v.Init)) || in.blocking(v.Cond)
		if pre {
			return []ast.Stmt{in.yieldStmt(v), v, in.yieldStmt(v)}
		}
		return []ast.Stmt{v}
	case *ast.ForStmt:
		if v.Init != nil {
			in.rewriteCalls(v.Init)
		}
		if v.Cond != nil {
			in.rewriteCalls(v.Cond)
		}
		in.block(v.Body)
		in.preemptInto(v.Body, v)
		return []ast.Stmt{v}
	case *ast.RangeStmt:
		in.funcLits(v.X)
		in.block(v.Body)
		if _, isMap := under(in.typeOf(v.X)).(*types.Map); !isChan(in.typeOf(v.X)) && !isMap {
			// not in map loops: Go randomises their order, so the number of visits before a break varies
			in.preemptInto(v.Body, v)
		}
		if isChan(in.typeOf(v.X)) {
			v.Body.List = append([]ast.Stmt{in.yieldStmt(v)}, v.Body.List...)
			return []ast.Stmt{in.yieldStmt(v), v, in.yieldStmt(v)}
		}
		return []ast.Stmt{v}
	case *ast.SwitchStmt:
		if v.Init != nil {
			in.rewriteCalls(v.Init)
		}
		for _, c := range v.Body.List {
			cc := c.(*ast.CaseClause)
			cc.Body = in.stmts(cc.Body)
		}
		return []ast.Stmt{v}
	case *ast.TypeSwitchStmt:
		for _, c := range v.Body.List {
			cc := c.(*ast.CaseClause)
			cc.Body = in.stmts(cc.Body)
		}
		return []ast.Stmt{v}
	case *ast.SelectStmt:
		return in.selectStmt(v)
	case *ast.GoStmt:
		return in.goStmt(v)
	case *ast.DeferStmt:
		in.funcLits(v.Call)
		if !in.lockCall(v.Call) {
			// deferred closure bodies were instrumented by funcLits
		}
		return []ast.Stmt{v}
	default:
		in.funcLits(s)
		in.rewriteCalls(s)
		if in.blocking(s) {
			if terminating(s) {
				return []ast.Stmt{in.yieldStmt(s), s}
			}
			return []ast.Stmt{in.yieldStmt(s), s, in.yieldStmt(s)}
		}
		return []ast.Stmt{s}
	}
}

func (in *instr) goStmt(g *ast.GoStmt) []ast.Stmt {
	st.gos++
	in.changed = true
	in.funcLits(g.Call)
	site := in.site(g)
	// go func(){...}() with no arguments: pass the literal directly
	if fl, ok := g.Call.Fun.(*ast.FuncLit); ok && len(g.Call.Args) == 0 {
		return []ast.Stmt{&ast.ExprStmt{X: &ast.CallExpr{Fun: rt("Go"), Args: []ast.Expr{site, fl}}}}
	}
	// general form: evaluate function value and arguments now, call later
	var pre []ast.Stmt
	newArgs := make([]ast.Expr, len(g.Call.Args))
	for i, a := range g.Call.Args {
		in.tmp++
		id := ast.NewIdent(fmt.Sprintf("simrtArg%d", in.tmp))
		pre = append(pre, &ast.AssignStmt{Lhs: []ast.Expr{id}, Tok: token.DEFINE, Rhs: []ast.Expr{a}})
		newArgs[i] = id
	}
	fun := g.Call.Fun
	if _, ok := fun.(*ast.FuncLit); !ok {
		// method value / function expression: evaluate receiver now
		in.tmp++
		id := ast.NewIdent(fmt.Sprintf("simrtFn%d", in.tmp))
		pre = append(pre, &ast.AssignStmt{Lhs: []ast.Expr{id}, Tok: token.DEFINE, Rhs: []ast.Expr{fun}})
		fun = id
	}
	call := &ast.CallExpr{Fun: fun, Args: newArgs, Ellipsis: g.Call.Ellipsis}
	body := &ast.BlockStmt{List: []ast.Stmt{&ast.ExprStmt{X: call}}}
	lit := &ast.FuncLit{Type: &ast.FuncType{Params: &ast.FieldList{}}, Body: body}
	pre = append(pre, &ast.ExprStmt{X: &ast.CallExpr{Fun: rt("Go"), Args: []ast.Expr{site, lit}}})
	return []ast.Stmt{&ast.BlockStmt{List: pre}}
}

func isPanic(c *ast.CallExpr) bool {
	id, ok := c.Fun.(*ast.Ident)
	return ok && id.Name == "panic"
}

func (in *instr) selectStmt(sel *ast.SelectStmt) []ast.Stmt {
	simple := true
	hasDefault := false
	var chans []ast.Expr
	for _, c := range sel.Body.List {
		cc := c.(*ast.CommClause)
		cc.Body = in.stmts(cc.Body)
		if cc.Comm == nil {
			hasDefault = true
			continue
		}
		es, ok := cc.Comm.(*ast.ExprStmt)
		if !ok {
			simple = false
			continue
		}
		ue, ok := es.X.(*ast.UnaryExpr)
		if !ok || ue.Op != token.ARROW {
			simple = false
			continue
		}
		chans = append(chans, ue.X)
	}
	if !simple {
		for _, c := range sel.Body.List {
			cc := c.(*ast.CommClause)
			cc.Body = append([]ast.Stmt{in.yieldStmt(cc)}, cc.Body...)
		}
		return []ast.Stmt{in.yieldStmt(sel), sel}
	}
	st.selects++
	in.changed = true
	def := "false"
	if hasDefault {
		def = "true"
	}
	args := append([]ast.Expr{in.site(sel), ast.NewIdent(def)}, chans...)
	sw := &ast.SwitchStmt{Tag: &ast.CallExpr{Fun: rt("Select"), Args: args}, Body: &ast.BlockStmt{}}
	idx := 0
	for _, c := range sel.Body.List {
		cc := c.(*ast.CommClause)
		var cl *ast.CaseClause
		if cc.Comm == nil {
			cl = &ast.CaseClause{List: []ast.Expr{&ast.BasicLit{Kind: token.INT, Value: "-1"}}, Body: cc.Body}
		} else {
			cl = &ast.CaseClause{List: []ast.Expr{&ast.BasicLit{Kind: token.INT, Value: fmt.Sprint(idx)}}, Body: cc.Body}
			idx++
		}
		sw.Body.List = append(sw.Body.List, cl)
	}
	if !hasDefault {
		// a blocking select never falls through; keep the function's termination analysis intact
		allTerm := true
		for _, c := range sw.Body.List {
			b := c.(*ast.CaseClause).Body
			if len(b) == 0 {
				allTerm = false
				break
			}
			switch l := b[len(b)-1].(type) {
			case *ast.ReturnStmt:
			case *ast.ExprStmt:
				if ce, ok := l.X.(*ast.CallExpr); !ok || !isPanic(ce) {
					allTerm = false
				}
			default:
				allTerm = false
			}
		}
		if allTerm {
			return []ast.Stmt{sw, &ast.ExprStmt{X: &ast.CallExpr{Fun: ast.NewIdent("panic"), Args: []ast.Expr{&ast.BasicLit{Kind: token.STRING, Value: `"simrt: unreachable"`}}}}}
		}
	}
	return []ast.Stmt{sw}
}
