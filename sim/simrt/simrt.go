// Package simrt is the run-time half of the deterministic scheduler.
//
// The instrumenter (sim/cmd/instr) rewrites a scratch copy of the repository so
// that every goroutine start, mutex operation and blocking channel statement
// calls into this package. Inside a simulation (a testing/synctest bubble with
// an active *Sim) a managed goroutine executes repository code only while it
// holds the baton: at every instrumented point it parks on its private grant
// channel and the scheduler goroutine - after synctest.Wait() reports that
// everything else is durably blocked - picks the next goroutine to run from
// the schedule tape. Outside a simulation every entry point degrades to the
// plain Go operation, so instrumented code also runs in ordinary tests.
package simrt

import (
	"fmt"
	"hash/fnv"
	"os"
	"reflect"
	"runtime"
	"runtime/debug"
	"sort"
	"strconv"
	"strings"
	"sync"
	"sync/atomic"
	"testing/synctest"
	"time"
)

// G is a managed goroutine.
type G struct {
	ID      string // parent.ID + "." + spawn index: stable across runs
	Role    string // spawn site
	Parent  *G
	Root    string // ID of the top-level ancestor (client actor / service)
	site    string
	grant   chan struct{}
	kids    int
	waitOn  any // mutex this goroutine is waiting for
	dying   bool
	exited  bool
	parked  bool
	goid    int64
	held    atomic.Int32 // exclusive locks taken through simrt.Lock and not yet released
	locks   []heldLock   // which ones (touched only by the goroutine itself while it holds the baton)
	Spawned int64        // step at which it was spawned
}

type heldLock struct {
	m      any
	shared bool // RLock
}

func (g *G) pushLock(m any, shared bool) { g.locks = append(g.locks, heldLock{m, shared}) }

func (g *G) popLock(m any, shared bool) {
	for i := len(g.locks) - 1; i >= 0; i-- {
		if g.locks[i].m == m && g.locks[i].shared == shared {
			g.locks = append(g.locks[:i], g.locks[i+1:]...)
			return
		}
	}
}

// Crash is an unrecovered panic of a managed goroutine: in the real process it
// would have terminated the whole server.
type Crash struct {
	Goroutine string
	Role      string
	Value     string
	Stack     string
}

// Sim is one simulated process run.
type Sim struct {
	mu      sync.Mutex
	gs      map[int64]*G
	all     []*G
	tape    []byte
	tpos    int
	rng     uint64 // xorshift state used once the tape is exhausted (0: always choose the lowest id)
	wake    chan struct{}
	kill    chan struct{}
	killed  atomic.Bool
	stopped chan struct{}

	Steps       int64
	trace       uint64 // running hash of (role, site) grants
	lastAdvance time.Time
	sinceAdv    int64
	MaxSpin     int64 // grants without clock advance before a livelock is declared

	Crashes        []Crash
	Livelock       string
	Exits          []int
	Multi          int64 // decisions with >= 2 candidates
	Overtakes      int64
	OvertakeBudget time.Duration // total simulated time the scheduler may spend letting timers overtake
	roots          int
	Log            func(format string, a ...any)
	rtBase         uint64                // base of the runtime random source for this run
	visits         atomic.Int64          // preemption-point visits since a managed goroutine last parked
	MaxVisits      int64                 // bound on the above before the run counts as spinning (0: unbounded)
	maps           map[uintptr]*mapState // lock discipline of shared Go maps (MapAccess)
	MapRaces       []string
	skew           atomic.Int64
	holderG        atomic.Pointer[G]
	holder         atomic.Int64 // goid of the goroutine that was granted the baton and has not parked since
	Resumes        int64        // goroutines that woke from a blocking call the instrumenter does not see and re-queued

	// preemption plan: visits of simrt.Preempt points are counted per site; a visit becomes a scheduling point
	// (the goroutine parks as at a Yield) when hash(seed, site, visit number) selects it - on average one
	// visit in preemptMean. Counting per site keeps the plan stable when an unrelated site is visited a
	// varying number of times (qryn ranges over Go maps, whose order the simulator does not control).
	preemptMean uint64
	pseed       uint64
	pmu         sync.Mutex
	psites      map[string]*psite
	Preempts    int64
}

type psite struct {
	h uint64
	n uint64
}

// debugging aid: VERIF_PREEMPT_TRACE=<file> accumulates visit counts per preemption point
var (
	ptFile    = os.Getenv("VERIF_PREEMPT_TRACE")
	ptOnly, _ = strconv.Atoi(os.Getenv("VERIF_PREEMPT_RUN")) // 1-based run whose events are kept in full (0: the first 3M events)
	ptMu      sync.Mutex
	ptCounts  = map[string]int{}
	ptSeq     []string
	ptRuns    []string
	ptRunNo   int
	ptHash    uint64
	ptEvents  int
)

// ptLog records one event of the debugging trace (caller holds no lock).
func ptLog(ev string) {
	ptMu.Lock()
	for i := 0; i < len(ev); i++ {
		ptHash = (ptHash ^ uint64(ev[i])) * 1099511628211
	}
	ptEvents++
	if (ptOnly == 0 && len(ptSeq) < 3000000) || (ptOnly > 0 && ptRunNo == ptOnly && len(ptSeq) < 20000000) {
		ptSeq = append(ptSeq, ev)
	}
	ptMu.Unlock()
}

func dumpPreemptTrace() {
	if ptFile == "" {
		return
	}
	ptMu.Lock()
	defer ptMu.Unlock()
	keys := make([]string, 0, len(ptCounts))
	for k := range ptCounts {
		keys = append(keys, k)
	}
	sort.Strings(keys)
	var b strings.Builder
	for _, k := range keys {
		fmt.Fprintf(&b, "%s %d\n", k, ptCounts[k])
	}
	os.WriteFile(ptFile, []byte(b.String()), 0o644)
	ptRuns = append(ptRuns, fmt.Sprintf("run %d events=%d hash=%x", ptRunNo, ptEvents, ptHash))
	os.WriteFile(ptFile+".seq", []byte(strings.Join(ptSeq, "\n")), 0o644)
	os.WriteFile(ptFile+".runs", []byte(strings.Join(ptRuns, "\n")), 0o644)
}

// SetPreempt enables preemption between synchronisation operations: on average one in mean visited
// preemption points becomes a scheduling point. Call before spawning goroutines; 0 disables.
func (s *Sim) SetPreempt(mean int64, seed uint64) {
	if mean <= 0 {
		return
	}
	s.preemptMean = uint64(mean)
	s.pseed = seed*0x9E3779B97F4A7C15 + 0x1234567
	s.psites = map[string]*psite{}
}

// Skew returns a small (< 1 µs) offset, different on every call within a run, that the harness adds to each of
// its own timers: two timers that expire at the same simulated instant fire in an order only the Go runtime
// decides, so the harness never creates such a tie itself.
func Skew() time.Duration {
	s := cur.Load()
	if s == nil {
		return 0
	}
	n := s.skew.Add(1)
	return time.Duration((n*37)%997 + 1)
}

// Preempt is a possible preemption point (function entry, loop body) in code that performs no
// synchronisation: unless the run's preemption plan selects this visit it costs a map lookup.
func Preempt(site string) {
	s := cur.Load()
	if s == nil {
		return
	}
	if ptFile != "" {
		ptMu.Lock()
		ptCounts[site]++
		ptMu.Unlock()
		ptLog(site)
	}
	if n := s.visits.Add(1); s.MaxVisits > 0 && n > s.MaxVisits && !s.killed.Load() {
		// a loop in qryn's own code that never reaches a synchronisation operation: the simulated process spins
		s.mu.Lock()
		if s.Livelock == "" {
			s.Livelock = fmt.Sprintf("%d function entries / loop iterations without reaching a synchronisation operation; spinning at %s", n, site)
		}
		s.mu.Unlock()
		s.Kill()
		if g := s.self(); g != nil {
			g.dying = true
			runtime.Goexit()
		}
		return
	}
	if RuntimeSeeded {
		// baton discipline: a managed goroutine that woke from a blocking call the instrumenter does not see
		// (a sleep inside a library, a timer callback) runs without a grant; the order in which several of them
		// wake at one simulated instant is the Go runtime's. It queues here, before it touches qryn's state,
		// and the scheduler decides.
		if id := fastGoid(); s.holder.Load() != id && !s.killed.Load() {
			s.mu.Lock()
			g := s.gs[id]
			s.mu.Unlock()
			if g != nil && !g.dying {
				s.mu.Lock()
				s.Resumes++
				s.mu.Unlock()
				s.park(g, "resume:"+site, nil)
			}
		}
	}
	if s.preemptMean == 0 {
		return
	}
	s.pmu.Lock()
	ps := s.psites[site]
	if ps == nil {
		h := s.pseed
		for i := 0; i < len(site); i++ {
			h = (h ^ uint64(site[i])) * 1099511628211
		}
		ps = &psite{h: h}
		s.psites[site] = ps
	}
	ps.n++
	x := ps.h + ps.n*0x9E3779B97F4A7C15
	s.pmu.Unlock()
	x ^= x >> 31
	x *= 0xBF58476D1CE4E5B9
	x ^= x >> 29
	mean := s.preemptMean
	g := s.holderG.Load()
	if g != nil && g.goid == fastGoid() && g.held.Load() > 0 && mean > 8 {
		// inside a critical section of one of qryn's own mutexes a switch is eight times as likely: state
		// that is shared although each holder believes it is protected shows only there
		mean /= 8
	}
	if x%mean != 0 || s.killed.Load() {
		return
	}
	if g == nil || g.goid != fastGoid() {
		g = s.self()
	}
	if g == nil || g.dying {
		return
	}
	s.mu.Lock()
	s.Preempts++
	s.mu.Unlock()
	s.park(g, "preempt:"+site, nil)
}

var cur atomic.Pointer[Sim]

// last is the most recent simulation, also after it was closed: goroutines of a run that is being torn down still
// unwind through the lock hooks and must keep their lock records exact.
var last atomic.Pointer[Sim]

// Active reports whether a simulation is running.
func Active() *Sim { return cur.Load() }

// New creates a simulation with the given schedule tape and makes it current.
// Must be called inside the synctest bubble.
func New(tape []byte, seed uint64) *Sim {
	s := &Sim{gs: map[int64]*G{}, tape: tape, rng: seed, wake: make(chan struct{}, 1), kill: make(chan struct{}),
		stopped: make(chan struct{}), MaxSpin: 200000, lastAdvance: time.Now(), OvertakeBudget: 3 * time.Second, MaxVisits: 100_000_000}
	h := fnv.New64a()
	s.trace = h.Sum64()
	// the runtime's own randomness is part of the schedule: derived from the tape and the seed
	h.Write(tape)
	s.rtBase = h.Sum64() ^ (seed * 0x9E3779B97F4A7C15)
	SeedRuntime(s.rtBase)
	if ptFile != "" {
		ptMu.Lock()
		ptRunNo++
		ptHash, ptEvents = 14695981039346656037, 0
		ptMu.Unlock()
	}
	cur.Store(s)
	last.Store(s)
	go s.loop()
	return s
}

func goid() int64 { return fastGoid() }

func slowGoid() int64 {
	var buf [64]byte
	n := runtime.Stack(buf[:], false)
	// "goroutine 123 ["
	b := buf[10:n]
	i := 0
	for i < len(b) && b[i] >= '0' && b[i] <= '9' {
		i++
	}
	id, _ := strconv.ParseInt(string(b[:i]), 10, 64)
	return id
}

func (s *Sim) self() *G {
	id := goid()
	s.mu.Lock()
	g := s.gs[id]
	s.mu.Unlock()
	return g
}

func (s *Sim) next() byte {
	if s.tpos < len(s.tape) {
		b := s.tape[s.tpos]
		s.tpos++
		return b
	}
	if s.rng == 0 {
		return 0
	}
	s.rng ^= s.rng << 13
	s.rng ^= s.rng >> 7
	s.rng ^= s.rng << 17
	return byte(s.rng >> 24)
}

func (s *Sim) signal() {
	select {
	case s.wake <- struct{}{}:
	default:
	}
}

func (s *Sim) mix(role, site string) {
	h := s.trace
	for i := 0; i < len(role); i++ {
		h = (h ^ uint64(role[i])) * 1099511628211
	}
	h = (h ^ '|') * 1099511628211
	for i := 0; i < len(site); i++ {
		h = (h ^ uint64(site[i])) * 1099511628211
	}
	s.trace = h
}

// TraceHash is the hash of the grant sequence so far.
func (s *Sim) TraceHash() uint64 { s.mu.Lock(); defer s.mu.Unlock(); return s.trace }

func (s *Sim) loop() {
	defer close(s.stopped)
	for {
		synctest.Wait()
		if s.killed.Load() {
			return
		}
		s.mu.Lock()
		var cands []*G
		for _, g := range s.all {
			if g.parked && g.waitOn == nil && !g.exited {
				cands = append(cands, g)
			}
		}
		s.mu.Unlock()
		if len(cands) == 0 {
			// nothing runnable: let the fake clock move to the next timer
			<-s.wake
			continue
		}
		sort.Slice(cands, func(i, j int) bool { return cands[i].ID < cands[j].ID })
		x := s.next()
		if x >= 248 {
			// let timers overtake the runnable goroutines
			y := s.next()
			d := time.Duration(1000)<<(y%20) + time.Duration(y)
			if d > s.OvertakeBudget {
				// the perturbation must not eat the simulated-time bounds the oracles check
				d = 0
			}
			if d > 0 {
				s.OvertakeBudget -= d
				s.Overtakes++
				time.Sleep(d)
				continue
			}
			x = y
		}
		if now := time.Now(); now.After(s.lastAdvance) {
			s.lastAdvance = now
			s.sinceAdv = 0
		}
		s.sinceAdv++
		if s.sinceAdv > s.MaxSpin {
			s.mu.Lock()
			g := cands[0]
			s.Livelock = fmt.Sprintf("%d scheduler grants without the clock advancing; spinning at %s (%s)", s.sinceAdv, g.site, g.Role)
			s.mu.Unlock()
			s.Kill()
			return
		}
		if len(cands) > 1 {
			s.Multi++
		}
		g := cands[int(x)%len(cands)]
		if ptFile != "" {
			var b strings.Builder
			for _, c := range cands {
				b.WriteString(c.ID + "@" + c.site + " ")
			}
			ptLog(fmt.Sprintf("SCHED x=%d pick=%s now=%d cands=%s", x, g.ID, time.Now().UnixNano(), b.String()))
		}
		s.mu.Lock()
		g.parked = false
		s.Steps++
		s.mix(g.Role, g.site)
		s.mu.Unlock()
		s.holder.Store(g.goid)
		s.holderG.Store(g)
		// the runtime's random source restarts at every grant: a draw the simulator does not see (a new OS
		// thread seeding itself) then shifts the sequence for one slice, not for the rest of the run
		SeedRuntime(s.rtBase + uint64(s.Steps)*0xD1B54A32D192ED03)
		select {
		case g.grant <- struct{}{}:
		case <-s.kill:
			return
		}
	}
}

// Kill ends the simulated process: every managed goroutine exits at its next
// instrumented point (deferred calls run).
func (s *Sim) Kill() {
	if s.killed.CompareAndSwap(false, true) {
		close(s.kill)
		s.signal()
	}
}

// WaitStopped blocks until the scheduler goroutine has exited (after Kill).
func (s *Sim) WaitStopped() { <-s.stopped }

// Killed returns a channel closed when the process was killed.
func (s *Sim) Killed() <-chan struct{} { return s.kill }

// Close kills the simulation and detaches it.
func (s *Sim) Close() {
	dumpPreemptTrace()
	s.Kill()
	cur.CompareAndSwap(s, nil)
}

func (s *Sim) park(g *G, site string, waitOn any) {
	if g.dying {
		return
	}
	if s.killed.Load() {
		g.dying = true
		runtime.Goexit()
	}
	s.holder.CompareAndSwap(g.goid, 0)
	s.visits.Store(0)
	s.mu.Lock()
	g.site = site
	g.parked = true
	g.waitOn = waitOn
	s.mu.Unlock()
	s.signal()
	select {
	case <-g.grant:
	case <-s.kill:
		g.dying = true
		runtime.Goexit()
	}
}

// Spawn starts a top-level managed goroutine (client actor, service).
func (s *Sim) Spawn(role string, f func()) *G {
	s.mu.Lock()
	s.roots++
	id := fmt.Sprintf("r%03d", s.roots)
	s.mu.Unlock()
	return s.spawn(nil, id, role, f)
}

func (s *Sim) spawn(parent *G, id, role string, f func()) *G {
	g := &G{ID: id, Role: role, Parent: parent, grant: make(chan struct{}), Spawned: s.Steps}
	if parent != nil {
		g.Root = parent.Root
	} else {
		g.Root = id
	}
	s.mu.Lock()
	s.all = append(s.all, g)
	s.mu.Unlock()
	started := make(chan struct{})
	go func() {
		g.goid = goid()
		s.mu.Lock()
		s.gs[g.goid] = g
		s.mu.Unlock()
		close(started)
		defer func() {
			r := recover()
			s.mu.Lock()
			g.exited = true
			g.parked = false
			s.holder.CompareAndSwap(g.goid, 0)
			delete(s.gs, g.goid)
			// a goroutine that ends (killed at teardown, or panicking) while it still holds a mutex it would have
			// released with a plain Unlock further down: package-level mutexes outlive the run, and the next run
			// in this process would wait for them forever
			for i := len(g.locks) - 1; i >= 0; i-- {
				l := g.locks[i]
				if l.shared {
					l.m.(rlocker).RUnlock()
				} else if lk := l.m.(locker); lk.TryLock() {
					lk.Unlock() // already free
				} else {
					lk.Unlock()
				}
			}
			g.locks = nil
			if r != nil {
				s.Crashes = append(s.Crashes, Crash{Goroutine: g.ID, Role: g.Role, Value: fmt.Sprint(r), Stack: string(debug.Stack())})
			}
			s.mu.Unlock()
			if r != nil {
				s.Kill() // the real process would be gone
			}
			s.signal()
		}()
		s.park(g, "start", nil)
		f()
	}()
	<-started
	return g
}

// Alive lists managed goroutines that have not exited, optionally restricted to a root.
func (s *Sim) Alive(root string) []*G {
	s.mu.Lock()
	defer s.mu.Unlock()
	var res []*G
	for _, g := range s.all {
		if !g.exited && (root == "" || g.Root == root) {
			res = append(res, g)
		}
	}
	return res
}

// Site returns where a goroutine is parked/blocked.
func (g *G) Site() string { return g.site }

// ---------------------------------------------------------------- hooks ----

// Go replaces a go statement.
func Go(site string, f func()) {
	s := cur.Load()
	if s == nil {
		go f()
		return
	}
	p := s.self()
	if p == nil || s.killed.Load() {
		go f()
		return
	}
	s.mu.Lock()
	p.kids++
	id := p.ID + "." + strconv.Itoa(p.kids)
	s.mu.Unlock()
	s.spawn(p, id, site, f)
	s.park(p, site, nil)
}

// Yield is a scheduling point.
func Yield(site string) {
	s := cur.Load()
	if s == nil {
		return
	}
	g := s.self()
	if g == nil {
		return
	}
	s.park(g, site, nil)
}

type locker interface {
	Lock()
	Unlock()
	TryLock() bool
}

type rlocker interface {
	RLock()
	RUnlock()
	TryRLock() bool
}

// Lock replaces m.Lock().
func Lock(site string, m locker) {
	s := cur.Load()
	var g *G
	if s != nil {
		g = s.self()
	}
	if g == nil {
		m.Lock()
		return
	}
	s.park(g, site, nil)
	for !m.TryLock() {
		if g.dying {
			m.Lock()
			return
		}
		s.park(g, site, m)
	}
	g.held.Add(1)
	g.pushLock(m, false)
}

// Unlock replaces m.Unlock().
func Unlock(site string, m locker) {
	m.Unlock()
	s := cur.Load()
	if s == nil {
		if ls := last.Load(); ls != nil {
			if g := ls.self(); g != nil {
				g.popLock(m, false)
			}
		}
		return
	}
	s.release(m)
	if g := s.self(); g != nil {
		g.held.Add(-1)
		g.popLock(m, false)
		s.park(g, site, nil)
	}
}

// RLock replaces m.RLock().
func RLock(site string, m rlocker) {
	s := cur.Load()
	var g *G
	if s != nil {
		g = s.self()
	}
	if g == nil {
		m.RLock()
		return
	}
	s.park(g, site, nil)
	for !m.TryRLock() {
		if g.dying {
			m.RLock()
			return
		}
		s.park(g, site, m)
	}
	g.pushLock(m, true)
}

// RUnlock replaces m.RUnlock().
func RUnlock(site string, m rlocker) {
	m.RUnlock()
	s := cur.Load()
	if s == nil {
		if ls := last.Load(); ls != nil {
			if g := ls.self(); g != nil {
				g.popLock(m, true)
			}
		}
		return
	}
	s.release(m)
	if g := s.self(); g != nil {
		g.popLock(m, true)
		s.park(g, site, nil)
	}
}

func (s *Sim) release(m any) {
	s.mu.Lock()
	for _, g := range s.all {
		if g.waitOn != nil && g.waitOn == m {
			g.waitOn = nil
		}
	}
	s.mu.Unlock()
}

// Select replaces a select statement whose cases are all plain receives
// (`case <-ch:`). It removes the runtime's random choice among ready cases:
// ready cases are polled in a tape-decided rotation. hasDefault selects the
// non-blocking form (returns -1 when nothing is ready).
func Select(site string, hasDefault bool, chans ...any) int {
	s := cur.Load()
	var g *G
	if s != nil {
		g = s.self()
	}
	cases := make([]reflect.SelectCase, len(chans))
	for i, c := range chans {
		cases[i] = reflect.SelectCase{Dir: reflect.SelectRecv, Chan: reflect.ValueOf(c)}
	}
	rot := 0
	if g != nil {
		s.park(g, site, nil)
		rot = int(s.next())
	}
	n := len(cases)
	for k := 0; k < n; k++ {
		i := (k + rot) % n
		if !cases[i].Chan.IsValid() || cases[i].Chan.IsNil() {
			continue
		}
		if j, _, _ := reflect.Select([]reflect.SelectCase{cases[i], {Dir: reflect.SelectDefault}}); j == 0 {
			if g != nil {
				s.park(g, site, nil)
			}
			return i
		}
	}
	if hasDefault {
		return -1
	}
	i, _, _ := reflect.Select(cases)
	if g != nil {
		s.park(g, site, nil)
	}
	return i
}

// Exit replaces os.Exit.
func Exit(code int) {
	s := cur.Load()
	if s == nil {
		os.Exit(code)
	}
	s.mu.Lock()
	s.Exits = append(s.Exits, code)
	s.mu.Unlock()
	s.Kill()
	runtime.Goexit()
}

// ---- lock discipline of shared Go maps
//
// The scheduler runs one goroutine at a time and never switches inside a runtime map operation, so the Go runtime's
// "concurrent map read and map write" abort - a process crash - cannot happen in a simulated run even when the code
// allows it. What can be observed is the discipline that prevents it: a map that is accessed under a mutex by one
// goroutine and touched by another goroutine holding no lock in common (at least one of them writing) is a crash
// waiting for the right instant. MapAccess implements the lockset algorithm (Eraser) for maps only, and reports a map
// only if it was lock-protected at some access - maps handed from one goroutine to the next without any lock
// (ownership transfer through a channel or a go statement) are never reported.

type mapState struct {
	ref        any // keeps the map alive, so that its address is not reused within the run
	owner      *G  // only accessor so far (nil once shared)
	shared     bool
	written    bool         // written after it became shared
	cands      map[any]bool // candidate locks: held at every access since the map became shared (exclusive holds only for writes)
	accessors  map[*G]bool  // goroutines that touched the map since it became shared
	lockedSite string       // an access made under a mutex since it became shared: the map is meant to be protected
	reported   bool
}

// MapAccess is inserted before statements that read or write a map reachable through a field path or a package-level
// variable. get evaluates the map expression (a nil pointer on the way is the statement's own business).
func MapAccess(get func() any, write bool, site string) {
	s := cur.Load()
	if s == nil || s.killed.Load() {
		return
	}
	g := s.holderG.Load()
	if g == nil || g.goid != fastGoid() {
		if g = s.self(); g == nil {
			return
		}
	}
	var m any
	func() {
		defer func() { _ = recover() }()
		m = get()
	}()
	if m == nil {
		return
	}
	rv := reflect.ValueOf(m)
	if rv.Kind() != reflect.Map || rv.IsNil() {
		return
	}
	key := rv.Pointer()
	s.mu.Lock()
	defer s.mu.Unlock()
	if s.maps == nil {
		s.maps = map[uintptr]*mapState{}
	}
	ms := s.maps[key]
	if ms == nil {
		s.maps[key] = &mapState{ref: m, owner: g}
		return
	}
	held := map[any]bool{}
	for _, l := range g.locks {
		if !l.shared || !write {
			held[l.m] = true
		}
	}
	if !ms.shared {
		if ms.owner == g {
			return
		}
		// second goroutine: from now on the locks held at every access are intersected
		ms.shared, ms.owner = true, nil
		ms.cands = held
		ms.accessors = map[*G]bool{}
	} else {
		for c := range ms.cands {
			if !held[c] {
				delete(ms.cands, c)
			}
		}
	}
	ms.accessors[g] = true
	if write {
		ms.written = true
	}
	if len(held) > 0 {
		ms.lockedSite = site
	}
	if len(ms.cands) == 0 && ms.written && ms.lockedSite != "" && len(ms.accessors) >= 2 && !ms.reported {
		ms.reported = true
		kind := "read"
		if write {
			kind = "written"
		}
		s.MapRaces = append(s.MapRaces, fmt.Sprintf("a map that is accessed under a mutex at %s is %s at %s by goroutine %s (%s); no lock is common to all accesses by the %d goroutines sharing it", ms.lockedSite, kind, site, g.ID, g.Role, len(ms.accessors)))
	}
}
