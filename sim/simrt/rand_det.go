//go:build verif && verifrand

package simrt

import _ "unsafe"

// verifSetRand exists only in builds made with the runtime overlay of tools/mkoverlay.py.
//
//go:linkname verifSetRand runtime.verifSetRand
func verifSetRand(seed uint64)

// SeedRuntime re-seeds the Go runtime's random source (map hash seeds and iteration offsets, select order,
// math/rand auto-seeding), so that one scenario is one execution also where qryn ranges over maps.
func SeedRuntime(seed uint64) { verifSetRand(seed | 1) }

//go:linkname verifGoid runtime.verifGoid
func verifGoid() uint64

func fastGoid() int64 { return int64(verifGoid()) }

//go:linkname verifMaxAlloc runtime.verifMaxAlloc
func verifMaxAlloc() uintptr

// LargestAlloc returns the size in bytes of the largest single allocation the process made since the last call
// (0 below 32 KiB and in builds without the runtime overlay).
func LargestAlloc() uint64 { return uint64(verifMaxAlloc()) }

// RuntimeSeeded reports whether the build controls the runtime's random source.
const RuntimeSeeded = true
