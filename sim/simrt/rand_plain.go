//go:build !(verif && verifrand)

package simrt

// SeedRuntime is a no-op in builds without the runtime overlay: map iteration order stays random.
func SeedRuntime(seed uint64) {}

func fastGoid() int64 { return slowGoid() }

const RuntimeSeeded = false
