//go:build !(verif && verifrand)

package simrt

// SeedRuntime is a no-op in builds without the runtime overlay: map iteration order stays random.
func SeedRuntime(seed uint64) {}

func fastGoid() int64 { return slowGoid() }

// LargestAlloc is not available without the runtime overlay.
func LargestAlloc() uint64 { return 0 }

const RuntimeSeeded = false
