// Package ddl is the DDL face of the simulated ClickHouse: a clickhouse.Conn
// whose durable state is a small catalogue model plus the rows of the `ver`
// and `settings` tables. It answers the statement forms used by ctrl's
// migration scripts and retention code the way ClickHouse does, refuses to
// guess on anything else (ErrUnknown => harness exit 2), and injects faults
// from a plan decided by the simulator.
package ddl

import (
	"context"
	"errors"
	"fmt"
	"reflect"
	"regexp"
	"sort"
	"strconv"
	"strings"

	"github.com/ClickHouse/clickhouse-go/v2/lib/driver"
)

// FaultKind says what the database does to one statement.
type FaultKind int

const (
	FaultNone      FaultKind = iota
	FailBefore               // statement is rejected, nothing applied
	ApplyThenCrash           // statement applied durably, then the client process dies
	ApplyThenError           // statement applied durably, client sees an error (lost ack)
	CrashBefore              // client process dies before the statement reaches the server
)

func (k FaultKind) String() string {
	return [...]string{"none", "fail-before", "apply-then-crash", "apply-then-error", "crash-before"}[k]
}

// Crash is the panic value that unwinds the simulated client process.
type Crash struct{ At int }

// ErrInjected is the error of an injected failure.
var ErrInjected = errors.New("simulated ClickHouse: injected failure")

// UnknownStatement is raised (as panic) when the model cannot classify a statement.
type UnknownStatement struct{ SQL string }

func (u UnknownStatement) Error() string { return "ddl model: unknown statement: " + u.SQL }

// Object is one catalogue entry.
type Object struct {
	Name     string
	Kind     string // table | view | mv
	Engine   string
	Columns  []string // in declaration order, ADD COLUMN appends
	OrderBy  string
	To       string // MV target
	From     string // view source
	Settings map[string]string
	TTL      string
	Create   string // normalised CREATE text (placeholders already rendered)
}

func (o *Object) clone() *Object {
	c := *o
	c.Columns = append([]string(nil), o.Columns...)
	c.Settings = map[string]string{}
	for k, v := range o.Settings {
		c.Settings[k] = v
	}
	return &c
}

// SettingRow is a row of the settings table.
type SettingRow struct {
	Fingerprint string
	Type, Name  string
	Value       string
	Seq         int
}

// Stmt is one entry of the statement log.
type Stmt struct {
	Proc    int // process incarnation
	Idx     int // index within the incarnation
	SQL     string
	Args    []any
	Class   string // classification by the model
	Fault   FaultKind
	Applied bool
	Err     string
}

// State is the durable state (survives crashes).
type State struct {
	Objects  map[string]*Object
	Ver      map[int64][]uint64
	// VerNode[k][i] is the cluster node (shard) that holds row i of stream k: `ver` is a node-local table,
	// only a Distributed table over it sees the rows of every node
	VerNode  map[int64][]int
	Settings []SettingRow
	seq      int
	// Node is the cluster node the current connection talks to
	Node int
}

func NewState() *State {
	return &State{Objects: map[string]*Object{}, Ver: map[int64][]uint64{}, VerNode: map[int64][]int{}}
}

func (s *State) Clone() *State {
	c := NewState()
	for k, v := range s.Objects {
		c.Objects[k] = v.clone()
	}
	for k, v := range s.Ver {
		c.Ver[k] = append([]uint64(nil), v...)
		c.VerNode[k] = append([]int(nil), s.VerNode[k]...)
	}
	c.Settings = append([]SettingRow(nil), s.Settings...)
	c.seq = s.seq
	return c
}

// Describe renders the catalogue canonically (for equality and reports).
func (s *State) Describe() string {
	names := make([]string, 0, len(s.Objects))
	for n := range s.Objects {
		names = append(names, n)
	}
	sort.Strings(names)
	var b strings.Builder
	for _, n := range names {
		o := s.Objects[n]
		fmt.Fprintf(&b, "%s %s engine=%q cols=%v orderby=%q to=%q from=%q\n", o.Kind, o.Name, o.Engine, o.Columns, o.OrderBy, o.To, o.From)
	}
	return b.String()
}

// MaxVer returns the highest recorded version of stream k.
func (s *State) MaxVer(k int64) uint64 {
	var m uint64
	for _, v := range s.Ver[k] {
		if v > m {
			m = v
		}
	}
	return m
}

// VisibleVer returns the highest version of stream k that a SELECT from table tbl on the connected node sees.
func (s *State) VisibleVer(k int64, tbl string) uint64 {
	o := s.Objects[tbl]
	global := o != nil && strings.HasPrefix(o.Engine, "Distributed")
	var m uint64
	for i, v := range s.Ver[k] {
		if (global || s.VerNode[k][i] == s.Node) && v > m {
			m = v
		}
	}
	return m
}

// Conn is one client connection == one process incarnation.
type Conn struct {
	St     *State
	Proc   int
	Node   int // cluster node this incarnation is connected to
	N      int // statements seen in this incarnation
	Log    *[]Stmt
	Faults map[int]FaultKind // statement index in this incarnation -> fault
	// OnApply is called after a statement was applied (oracle hook).
	OnApply func(st *Stmt)
	// Fired counts faults that actually fired.
	Fired map[FaultKind]int
}

func NewConn(st *State, proc int, log *[]Stmt, faults map[int]FaultKind) *Conn {
	return &Conn{St: st, Proc: proc, Log: log, Faults: faults, Fired: map[FaultKind]int{}}
}

var wsRe = regexp.MustCompile(`\s+`)

func norm(q string) string { return strings.TrimSpace(wsRe.ReplaceAllString(q, " ")) }

func (c *Conn) step(q string, args []any, apply func(n string, st *Stmt) error) error {
	n := norm(q)
	c.St.Node = c.Node
	st := Stmt{Proc: c.Proc, Idx: c.N, SQL: n, Args: args}
	f := c.Faults[c.N]
	c.N++
	st.Fault = f
	finish := func() { *c.Log = append(*c.Log, st) }
	switch f {
	case FailBefore:
		c.Fired[f]++
		st.Err = ErrInjected.Error()
		st.Class = classify(n)
		finish()
		return ErrInjected
	case CrashBefore:
		c.Fired[f]++
		st.Class = classify(n)
		st.Err = "crash"
		finish()
		panic(Crash{At: st.Idx})
	}
	err := apply(n, &st)
	if err != nil {
		st.Err = err.Error()
		finish()
		return err
	}
	st.Applied = true
	if c.OnApply != nil {
		c.OnApply(&st)
	}
	switch f {
	case ApplyThenCrash:
		c.Fired[f]++
		st.Err = "crash"
		finish()
		panic(Crash{At: st.Idx})
	case ApplyThenError:
		c.Fired[f]++
		st.Err = ErrInjected.Error()
		finish()
		return ErrInjected
	}
	finish()
	return nil
}

func (c *Conn) Exec(ctx context.Context, query string, args ...any) error {
	return c.step(query, args, func(n string, st *Stmt) error { return c.St.exec(n, args, st) })
}

func (c *Conn) Query(ctx context.Context, query string, args ...any) (driver.Rows, error) {
	var rows *Rows
	err := c.step(query, args, func(n string, st *Stmt) error {
		r, err := c.St.query(n, args, st)
		rows = r
		return err
	})
	if err != nil {
		return nil, err
	}
	return rows, nil
}

func (c *Conn) Contributors() []string                        { return nil }
func (c *Conn) ServerVersion() (*driver.ServerVersion, error) { return &driver.ServerVersion{}, nil }
func (c *Conn) Select(ctx context.Context, dest any, query string, args ...any) error {
	panic(UnknownStatement{"Select: " + query})
}
func (c *Conn) QueryRow(ctx context.Context, query string, args ...any) driver.Row {
	panic(UnknownStatement{"QueryRow: " + query})
}
func (c *Conn) PrepareBatch(ctx context.Context, query string, opts ...driver.PrepareBatchOption) (driver.Batch, error) {
	panic(UnknownStatement{"PrepareBatch: " + query})
}
func (c *Conn) AsyncInsert(ctx context.Context, query string, wait bool, args ...any) error {
	panic(UnknownStatement{"AsyncInsert: " + query})
}
func (c *Conn) Ping(context.Context) error { return nil }
func (c *Conn) Stats() driver.Stats        { return driver.Stats{} }
func (c *Conn) Close() error               { return nil }

// ---------------------------------------------------------------- model ----

var (
	reIdent      = "`?([A-Za-z_][A-Za-z0-9_]*)`?"
	reQual       = "(?:`?[A-Za-z_][A-Za-z0-9_]*`?\\.)?" + reIdent
	reOnCluster  = "(?: ON CLUSTER `[^`]*`)?"
	reCreateTbl  = regexp.MustCompile(`(?i)^CREATE TABLE( IF NOT EXISTS)? ` + reQual + reOnCluster + ` ?\(`)
	reCreateView = regexp.MustCompile(`(?i)^CREATE (MATERIALIZED )?VIEW( IF NOT EXISTS)? ` + reQual + reOnCluster + `(?: TO ` + reQual + `)? AS SELECT (.*)$`)
	reDrop       = regexp.MustCompile(`(?i)^DROP (?:TABLE|VIEW)( IF EXISTS)? ` + reQual + reOnCluster + `;?$`)
	reRename     = regexp.MustCompile(`(?i)^RENAME TABLE( IF EXISTS)? ` + reQual + ` TO ` + reQual + reOnCluster + `;?$`)
	reAlter      = regexp.MustCompile(`(?i)^ALTER TABLE ` + reQual + reOnCluster + ` (.*)$`)
	reInsSetScr  = regexp.MustCompile(`(?i)^INSERT INTO ` + reQual + ` \(fingerprint, type, name, value, inserted_at\) VALUES \((cityHash64\('[^']*'\)), '([^']*)', '([^']*)', (.*), NOW\(\)\);?$`)
	reInsSetArg  = regexp.MustCompile(`(?i)^INSERT INTO ` + reQual + ` \(fingerprint, type, name, value, inserted_at\) VALUES \(\$1, \$2, \$3, \$4, NOW\(\)\)$`)
	reInsVer     = regexp.MustCompile(`(?i)^INSERT INTO ` + reQual + ` \(k, ver\) VALUES \(\$1, \$2\)$`)
	reSelVer     = regexp.MustCompile(`(?i)^SELECT max\(ver\) as ver FROM ` + reQual + ` WHERE k = \$1 FORMAT JSON$`)
	reSelSet     = regexp.MustCompile(`(?i)^SELECT argMax\(value, inserted_at\) as _value FROM ` + reQual + ` WHERE fingerprint = \$1 GROUP BY fingerprint HAVING argMax\(name, inserted_at\) != ''$`)
	reShowTables = regexp.MustCompile(`(?i)^SHOW TABLES$`)
	reCreateDB   = regexp.MustCompile(`(?i)^CREATE DATABASE IF NOT EXISTS `)
	reAddCol     = regexp.MustCompile(`(?i)^ADD COLUMN( IF NOT EXISTS)? ` + reIdent + ` `)
	reModOrder   = regexp.MustCompile(`(?i)^MODIFY ORDER BY (.*)$`)
	reModSetting = regexp.MustCompile(`(?i)^MODIFY SETTING (.*)$`)
	reModTTL     = regexp.MustCompile(`(?i)^MODIFY TTL (.*)$`)
	reEngine     = regexp.MustCompile(`(?i)\)\s*ENGINE\s*=?\s*([A-Za-z]+)`)
	reOrderBy    = regexp.MustCompile(`(?i)\bORDER BY (\([^)]*\)|[A-Za-z_]+)`)
	reFrom       = regexp.MustCompile(`(?i)\bFROM ` + reQual)
)

func classify(n string) string {
	switch {
	case reCreateTbl.MatchString(n):
		return "create-table"
	case reCreateView.MatchString(n):
		return "create-view"
	case reDrop.MatchString(n):
		return "drop"
	case reRename.MatchString(n):
		return "rename"
	case reAlter.MatchString(n):
		return "alter"
	case reInsSetScr.MatchString(n), reInsSetArg.MatchString(n):
		return "insert-settings"
	case reInsVer.MatchString(n):
		return "insert-ver"
	case reSelVer.MatchString(n):
		return "select-ver"
	case reSelSet.MatchString(n):
		return "select-setting"
	case reShowTables.MatchString(n):
		return "show-tables"
	case reCreateDB.MatchString(n):
		return "create-db"
	}
	return "unknown"
}

// splitTop splits s at top-level occurrences of sep (outside parentheses and quotes).
func splitTop(s string, sep byte) []string {
	var res []string
	depth := 0
	inq := false
	start := 0
	for i := 0; i < len(s); i++ {
		ch := s[i]
		switch {
		case inq:
			if ch == '\\' {
				i++
			} else if ch == '\'' {
				inq = false
			}
		case ch == '\'':
			inq = true
		case ch == '(':
			depth++
		case ch == ')':
			depth--
		case ch == sep && depth == 0:
			res = append(res, strings.TrimSpace(s[start:i]))
			start = i + 1
		}
	}
	res = append(res, strings.TrimSpace(s[start:]))
	return res
}

// matchParen returns the index of the ')' matching the '(' at s[open].
func matchParen(s string, open int) int {
	depth := 0
	inq := false
	for i := open; i < len(s); i++ {
		ch := s[i]
		switch {
		case inq:
			if ch == '\\' {
				i++
			} else if ch == '\'' {
				inq = false
			}
		case ch == '\'':
			inq = true
		case ch == '(':
			depth++
		case ch == ')':
			depth--
			if depth == 0 {
				return i
			}
		}
	}
	return -1
}

func chErr(code int, f string, a ...any) error {
	return fmt.Errorf("code: %d, message: %s", code, fmt.Sprintf(f, a...))
}

func (s *State) exec(n string, args []any, st *Stmt) error {
	st.Class = classify(n)
	switch st.Class {
	case "create-db":
		return nil
	case "create-table":
		m := reCreateTbl.FindStringSubmatch(n)
		name := m[2]
		if _, ok := s.Objects[name]; ok {
			if m[1] != "" {
				return nil
			}
			return chErr(57, "Table %s already exists", name)
		}
		open := strings.Index(n, "(")
		cl := matchParen(n, open)
		if cl < 0 {
			return chErr(62, "Syntax error: unbalanced parentheses")
		}
		o := &Object{Name: name, Kind: "table", Settings: map[string]string{}, Create: n}
		for _, c := range splitTop(n[open+1:cl], ',') {
			f := strings.Fields(c)
			if len(f) == 0 {
				return chErr(62, "Syntax error: empty column")
			}
			col := strings.Trim(f[0], "`")
			for _, e := range o.Columns {
				if e == col {
					return chErr(44, "duplicate column %s", col)
				}
			}
			o.Columns = append(o.Columns, col)
		}
		rest := n[cl:]
		if em := reEngine.FindStringSubmatch(rest); em != nil {
			o.Engine = em[1]
		} else if em := regexp.MustCompile(`(?i)\)\s*Engine\s+([A-Za-z]+)`).FindStringSubmatch(rest); em != nil {
			o.Engine = em[1]
		} else {
			return chErr(119, "Table engine is not specified in CREATE query")
		}
		if om := reOrderBy.FindStringSubmatch(rest); om != nil {
			o.OrderBy = om[1]
		}
		if sm := regexp.MustCompile(`(?i)SETTINGS storage_policy = '([^']*)'`).FindStringSubmatch(rest); sm != nil {
			o.Settings["storage_policy"] = sm[1]
		}
		if tm := regexp.MustCompile(`(?i)\bTTL (.*?)( SETTINGS|$)`).FindStringSubmatch(rest); tm != nil {
			o.TTL = tm[1]
		}
		s.Objects[name] = o
		return nil
	case "create-view":
		m := reCreateView.FindStringSubmatch(n)
		name := m[3]
		if _, ok := s.Objects[name]; ok {
			if m[2] != "" {
				return nil
			}
			return chErr(57, "Table %s already exists", name)
		}
		o := &Object{Name: name, Kind: "view", Settings: map[string]string{}, Create: n}
		if m[1] != "" {
			o.Kind = "mv"
		}
		o.To = m[4]
		if o.To != "" {
			if t, ok := s.Objects[o.To]; !ok || t.Kind != "table" {
				return chErr(60, "Target table %s doesn't exist", o.To)
			}
		}
		fm := reFrom.FindStringSubmatch(m[5])
		if fm == nil {
			return chErr(62, "Syntax error: view without FROM")
		}
		o.From = fm[1]
		if _, ok := s.Objects[o.From]; !ok {
			return chErr(60, "Table %s doesn't exist", o.From)
		}
		// columns selected by the view: keep the trailing identifiers of the select list
		sel := m[5][:strings.Index(strings.ToUpper(m[5]), " FROM ")]
		for _, e := range splitTop(sel, ',') {
			f := strings.Fields(e)
			o.Columns = append(o.Columns, strings.Trim(f[len(f)-1], "`"))
		}
		s.Objects[name] = o
		return nil
	case "drop":
		m := reDrop.FindStringSubmatch(n)
		if _, ok := s.Objects[m[2]]; !ok {
			if m[1] != "" {
				return nil
			}
			return chErr(60, "Table %s doesn't exist", m[2])
		}
		delete(s.Objects, m[2])
		return nil
	case "rename":
		m := reRename.FindStringSubmatch(n)
		from, to := m[2], m[3]
		o, ok := s.Objects[from]
		if !ok {
			if m[1] != "" {
				return nil
			}
			return chErr(60, "Table %s doesn't exist", from)
		}
		if _, ok := s.Objects[to]; ok {
			return chErr(57, "Table %s already exists", to)
		}
		delete(s.Objects, from)
		o.Name = to
		s.Objects[to] = o
		return nil
	case "alter":
		m := reAlter.FindStringSubmatch(n)
		o, ok := s.Objects[m[1]]
		if !ok {
			return chErr(60, "Table %s doesn't exist", m[1])
		}
		body := strings.TrimSuffix(strings.TrimSpace(m[2]), ";")
		if strings.HasPrefix(body, "(") && matchParen(body, 0) == len(body)-1 {
			body = body[1 : len(body)-1]
		}
		// actions of one ALTER are validated first, then applied together
		w := o.clone()
		var actions []string
		if reModSetting.MatchString(body) || reModTTL.MatchString(body) {
			actions = []string{body}
		} else {
			actions = splitTop(body, ',')
		}
		for _, a := range actions {
			switch {
			case reAddCol.MatchString(a):
				am := reAddCol.FindStringSubmatch(a)
				exists := false
				for _, c := range w.Columns {
					if c == am[2] {
						exists = true
					}
				}
				if exists {
					if am[1] != "" {
						continue
					}
					return chErr(15, "Cannot add column %s: column with this name already exists", am[2])
				}
				w.Columns = append(w.Columns, am[2])
			case reModOrder.MatchString(a):
				w.OrderBy = reModOrder.FindStringSubmatch(a)[1]
			case reModSetting.MatchString(a):
				for _, kv := range splitTop(reModSetting.FindStringSubmatch(a)[1], ',') {
					p := strings.SplitN(kv, "=", 2)
					if len(p) != 2 {
						return chErr(62, "Syntax error in MODIFY SETTING: %s", kv)
					}
					k, v := strings.TrimSpace(p[0]), strings.TrimSpace(p[1])
					if v == "$1" {
						if len(args) < 1 {
							return chErr(62, "missing bind argument")
						}
						v = fmt.Sprint(args[0])
					}
					if k == "storage_policy" && strings.Trim(v, "'") == "" {
						// there is no policy without a name (a table without the setting uses the policy "default")
						return chErr(478, "Unknown storage policy ``")
					}
					w.Settings[k] = strings.Trim(v, "'")
				}
			case reModTTL.MatchString(a):
				w.TTL = reModTTL.FindStringSubmatch(a)[1]
			default:
				panic(UnknownStatement{n})
			}
		}
		s.Objects[m[1]] = w
		return nil
	case "insert-settings":
		if _, ok := s.Objects["settings"]; !ok {
			return chErr(60, "Table settings doesn't exist")
		}
		s.seq++
		if m := reInsSetScr.FindStringSubmatch(n); m != nil {
			s.Settings = append(s.Settings, SettingRow{m[2], m[3], m[4], m[5], s.seq})
			return nil
		}
		if len(args) != 4 {
			return chErr(62, "expected 4 bind arguments, got %d", len(args))
		}
		s.Settings = append(s.Settings, SettingRow{fmt.Sprint(args[0]), fmt.Sprint(args[1]), fmt.Sprint(args[2]), fmt.Sprint(args[3]), s.seq})
		return nil
	case "insert-ver":
		m := reInsVer.FindStringSubmatch(n)
		if _, ok := s.Objects[m[1]]; !ok {
			return chErr(60, "Table %s doesn't exist", m[1])
		}
		k, ok1 := toInt(args, 0)
		v, ok2 := toInt(args, 1)
		if !ok1 || !ok2 {
			return chErr(62, "bad bind arguments for ver insert: %v", args)
		}
		node := s.Node
		if o := s.Objects[m[1]]; strings.HasPrefix(o.Engine, "Distributed") {
			// sharding key rand(): any node
			node = s.seq % 2
		}
		s.seq++
		s.Ver[k] = append(s.Ver[k], uint64(v))
		s.VerNode[k] = append(s.VerNode[k], node)
		return nil
	}
	panic(UnknownStatement{n})
}

func toInt(args []any, i int) (int64, bool) {
	if i >= len(args) {
		return 0, false
	}
	rv := reflect.ValueOf(args[i])
	switch rv.Kind() {
	case reflect.Int, reflect.Int8, reflect.Int16, reflect.Int32, reflect.Int64:
		return rv.Int(), true
	case reflect.Uint, reflect.Uint8, reflect.Uint16, reflect.Uint32, reflect.Uint64:
		return int64(rv.Uint()), true
	case reflect.String:
		n, err := strconv.ParseInt(rv.String(), 10, 64)
		return n, err == nil
	}
	return 0, false
}

func (s *State) query(n string, args []any, st *Stmt) (*Rows, error) {
	st.Class = classify(n)
	switch st.Class {
	case "select-ver":
		m := reSelVer.FindStringSubmatch(n)
		tbl := m[1]
		if _, ok := s.Objects[tbl]; !ok {
			return nil, chErr(60, "Table %s doesn't exist", tbl)
		}
		k, ok := toInt(args, 0)
		if !ok {
			return nil, chErr(62, "bad bind argument")
		}
		return &Rows{data: [][]any{{s.VisibleVer(k, tbl)}}, cols: []string{"ver"}}, nil
	case "select-setting":
		m := reSelSet.FindStringSubmatch(n)
		if _, ok := s.Objects[m[1]]; !ok {
			return nil, chErr(60, "Table %s doesn't exist", m[1])
		}
		if len(args) < 1 {
			return nil, chErr(62, "bad bind argument")
		}
		fp := fmt.Sprint(args[0])
		var last *SettingRow
		for i := range s.Settings {
			r := &s.Settings[i]
			if r.Fingerprint == fp && (last == nil || r.Seq > last.Seq) {
				last = r
			}
		}
		if last == nil || last.Name == "" {
			return &Rows{cols: []string{"_value"}}, nil
		}
		return &Rows{data: [][]any{{last.Value}}, cols: []string{"_value"}}, nil
	case "show-tables":
		names := make([]string, 0, len(s.Objects))
		for k := range s.Objects {
			names = append(names, k)
		}
		sort.Strings(names)
		r := &Rows{cols: []string{"name"}}
		for _, k := range names {
			r.data = append(r.data, []any{k})
		}
		return r, nil
	}
	panic(UnknownStatement{n})
}

// Rows implements driver.Rows over literal data.
type Rows struct {
	data [][]any
	cols []string
	pos  int
}

func (r *Rows) Next() bool {
	if r.pos >= len(r.data) {
		return false
	}
	r.pos++
	return true
}

func (r *Rows) Scan(dest ...any) error {
	if r.pos == 0 || r.pos > len(r.data) {
		return errors.New("Scan without Next")
	}
	row := r.data[r.pos-1]
	if len(dest) != len(row) {
		return fmt.Errorf("expected %d destination arguments in Scan, not %d", len(row), len(dest))
	}
	for i, d := range dest {
		dv := reflect.ValueOf(d)
		if dv.Kind() != reflect.Ptr {
			return errors.New("Scan destination is not a pointer")
		}
		sv := reflect.ValueOf(row[i])
		if !sv.Type().ConvertibleTo(dv.Elem().Type()) || (sv.Kind() == reflect.String) != (dv.Elem().Kind() == reflect.String) {
			return fmt.Errorf("clickhouse [ScanRow]: converting %s to %s is unsupported", sv.Type(), dv.Elem().Type())
		}
		dv.Elem().Set(sv.Convert(dv.Elem().Type()))
	}
	return nil
}
func (r *Rows) ScanStruct(dest any) error        { return errors.New("not supported") }
func (r *Rows) ColumnTypes() []driver.ColumnType { return nil }
func (r *Rows) Totals(dest ...any) error         { return nil }
func (r *Rows) Columns() []string                { return r.cols }
func (r *Rows) Close() error                     { return nil }
func (r *Rows) Err() error                       { return nil }
