// Package chfake is the insert face of the simulated ClickHouse: an
// ch_wrapper.IChClient / IChClientFactory that decodes every INSERT block
// column by column, checks what the server would check (equal row counts),
// records the block and its outcome in the run's history and applies the fault
// plan decided by the simulator.
package chfake

import (
	"context"
	"errors"
	"fmt"
	"regexp"
	"sync"
	"time"

	"github.com/ClickHouse/ch-go"
	"github.com/ClickHouse/ch-go/proto"
	"github.com/ClickHouse/clickhouse-go/v2/lib/driver"
	"github.com/metrico/qryn/writer/ch_wrapper"
	"github.com/metrico/qryn/zz_verif/simrt"
)

// FaultKind of the insert endpoint.
type FaultKind int

const (
	None           FaultKind = iota
	ErrNow                   // Do returns an error at once, nothing applied
	ErrAfterDelay            // Do returns an error after a delay, nothing applied
	Stall                    // Do blocks until its context ends (write timeout)
	Slow                     // Do succeeds after a delay
	ErrAfterApply            // block is applied, client sees an error (ambiguous commit)
	PingErr                  // Ping fails
	ConnectRefused           // connection factory refuses
)

var kindNames = []string{"none", "insert-error", "insert-error-delayed", "insert-stall-timeout", "insert-slow", "insert-error-after-apply", "ping-error", "connect-refused"}

func (k FaultKind) String() string { return kindNames[k] }

// Fault is one entry of the fault plan: the Nth operation (0-based, counted per
// operation class over the whole run) of class Op gets Kind.
type Fault struct {
	Op      string `json:"op"` // do | ping | connect
	Nth     int    `json:"nth"`
	Kind    int    `json:"kind"`
	DelayUs int64  `json:"delay_us"`
}

// Col is a decoded column.
type Col struct {
	Name string
	Rows int
	Vals []any // one value per row (string, uint64, int64, float64, uint8, int8, time.Time-days as int, []byte for fixed strings, fmt string for arrays)
}

// Block is one INSERT attempt.
type Block struct {
	Seq      int
	Conn     int
	Node     string // the configured node this connection belongs to ("" in a single-node run)
	Table    string
	SQL      string
	Cols     []Col
	Rows     int // rows of the first column
	Rect     bool
	StartEv  int64 // global event number at Do entry
	EndEv    int64 // global event number at Do return
	StartT   time.Time
	EndT     time.Time
	Err      error
	Applied  bool
	Fault    FaultKind
	Finished bool
}

func (b *Block) Col(name string) *Col {
	for i := range b.Cols {
		if b.Cols[i].Name == name {
			return &b.Cols[i]
		}
	}
	return nil
}

// DB is the shared state of the insert face for one run.
type DB struct {
	mu       sync.Mutex
	Blocks   []*Block
	conns    int
	nDo      int
	nPing    int
	nConnect int
	faults   map[string]map[int]Fault
	Fired    map[string]int
	Healed   bool // no faults after healing
	Ev       func() int64
	OnBlock  func(b *Block) // called when a Do finished (oracle hook)
	BaseLat  time.Duration
	Opened   int
	Closed   int
	Refused  int
	Pings    int
}

func NewDB(faults []Fault, ev func() int64) *DB {
	db := &DB{faults: map[string]map[int]Fault{}, Fired: map[string]int{}, Ev: ev, BaseLat: 200 * time.Microsecond}
	for _, f := range faults {
		if db.faults[f.Op] == nil {
			db.faults[f.Op] = map[int]Fault{}
		}
		db.faults[f.Op][f.Nth] = f
	}
	return db
}

// Heal stops fault injection.
func (db *DB) Heal() { db.mu.Lock(); db.Healed = true; db.mu.Unlock() }

func (db *DB) fault(op string, n int) (Fault, bool) {
	if db.Healed {
		return Fault{}, false
	}
	f, ok := db.faults[op][n]
	return f, ok
}

// Factory returns the connection factory handed to the writer.
func (db *DB) Factory() ch_wrapper.IChClientFactory { return db.FactoryFor("") }

// FactoryFor is the factory of one configured node: the nodes are independent servers, a row inserted through a
// connection of one node exists on that node only.
func (db *DB) FactoryFor(node string) ch_wrapper.IChClientFactory {
	return func() (ch_wrapper.IChClient, error) {
		db.mu.Lock()
		n := db.nConnect
		db.nConnect++
		f, ok := db.fault("connect", n)
		if ok && FaultKind(f.Kind) == ConnectRefused {
			db.Refused++
			db.Fired[ConnectRefused.String()]++
			db.mu.Unlock()
			return nil, errors.New("dial tcp 10.0.0.1:9000: connect: connection refused")
		}
		db.conns++
		db.Opened++
		c := &Client{db: db, id: db.conns, node: node}
		db.mu.Unlock()
		return c, nil
	}
}

// Client is one connection.
type Client struct {
	db     *DB
	node   string
	id     int
	closed bool
}

var reTable = regexp.MustCompile(`(?i)^INSERT INTO\s+([A-Za-z0-9_]+)`)

func decode(in proto.InputColumn) Col {
	c := Col{Name: in.Name, Rows: in.Data.Rows()}
	switch d := in.Data.(type) {
	case proto.ColUInt8:
		for _, v := range d {
			c.Vals = append(c.Vals, uint64(v))
		}
	case proto.ColUInt16:
		for _, v := range d {
			c.Vals = append(c.Vals, uint64(v))
		}
	case proto.ColUInt32:
		for _, v := range d {
			c.Vals = append(c.Vals, uint64(v))
		}
	case proto.ColUInt64:
		for _, v := range d {
			c.Vals = append(c.Vals, uint64(v))
		}
	case proto.ColInt8:
		for _, v := range d {
			c.Vals = append(c.Vals, int64(v))
		}
	case proto.ColInt64:
		for _, v := range d {
			c.Vals = append(c.Vals, int64(v))
		}
	case proto.ColFloat64:
		for _, v := range d {
			c.Vals = append(c.Vals, float64(v))
		}
	case proto.ColBool:
		for _, v := range d {
			c.Vals = append(c.Vals, v)
		}
	case proto.ColDate:
		for _, v := range d {
			c.Vals = append(c.Vals, int64(v)) // days since epoch, as the server stores it
		}
	case *proto.ColStr:
		for i := 0; i < d.Rows(); i++ {
			c.Vals = append(c.Vals, string(d.RowBytes(i)))
		}
	case *proto.ColFixedStr:
		for i := 0; i < d.Rows(); i++ {
			c.Vals = append(c.Vals, string(d.Row(i)))
		}
	default:
		// arrays of tuples (profiles): only the row count is interpreted
		for i := 0; i < c.Rows; i++ {
			c.Vals = append(c.Vals, nil)
		}
	}
	return c
}

func (c *Client) Ping(ctx context.Context) error {
	db := c.db
	db.mu.Lock()
	n := db.nPing
	db.nPing++
	db.Pings++
	f, ok := db.fault("ping", n)
	db.mu.Unlock()
	if ok && FaultKind(f.Kind) == PingErr {
		db.mu.Lock()
		db.Fired[PingErr.String()]++
		db.mu.Unlock()
		return errors.New("ping: read: connection reset by peer")
	}
	return nil
}

func sleepCtx(ctx context.Context, d time.Duration) error {
	t := time.NewTimer(d + simrt.Skew())
	defer t.Stop()
	select {
	case <-t.C:
		return nil
	case <-ctx.Done():
		return ctx.Err()
	}
}

func (c *Client) Do(ctx context.Context, q ch.Query) error {
	db := c.db
	b := &Block{Conn: c.id, Node: c.node, SQL: q.Body, StartT: time.Now()}
	if m := reTable.FindStringSubmatch(q.Body); m != nil {
		b.Table = m[1]
	}
	b.Rect = true
	for i, in := range q.Input {
		col := decode(in)
		if i == 0 {
			b.Rows = col.Rows
		} else if col.Rows != b.Rows {
			b.Rect = false
		}
		b.Cols = append(b.Cols, col)
	}
	db.mu.Lock()
	n := db.nDo
	db.nDo++
	b.Seq = n
	b.StartEv = db.Ev()
	db.Blocks = append(db.Blocks, b)
	f, hasFault := db.fault("do", n)
	db.mu.Unlock()
	kind := None
	if hasFault {
		kind = FaultKind(f.Kind)
	}
	b.Fault = kind
	delay := time.Duration(f.DelayUs) * time.Microsecond
	var err error
	fire := func() {
		db.mu.Lock()
		db.Fired[kind.String()]++
		db.mu.Unlock()
	}
	if c.closed {
		err = errors.New("use of closed connection")
	} else if !b.Rect {
		// what the server answers to a block whose columns disagree on the number of rows
		err = fmt.Errorf("code: 101, message: Unexpected packet Data received from client: columns have different number of rows")
	} else {
		switch kind {
		case ErrNow:
			fire()
			err = errors.New("code: 241, message: Memory limit (total) exceeded (injected)")
		case ErrAfterDelay:
			fire()
			if e := sleepCtx(ctx, delay); e != nil {
				err = e
			} else {
				err = errors.New("write: broken pipe (injected)")
			}
		case Stall:
			fire()
			<-ctx.Done()
			err = ctx.Err()
		case Slow:
			fire()
			if e := sleepCtx(ctx, delay); e != nil {
				err = e
			} else {
				b.Applied = true
			}
		case ErrAfterApply:
			fire()
			b.Applied = true
			sleepCtx(ctx, db.BaseLat)
			err = errors.New("read: connection reset by peer (injected after apply)")
		default:
			if e := sleepCtx(ctx, db.BaseLat); e != nil {
				err = e
			} else {
				b.Applied = true
			}
		}
	}
	// the stub is harness code: park so that the scheduler decides who runs after the INSERT returns
	simrt.Yield("chfake.Do:return")
	db.mu.Lock()
	b.Err = err
	b.EndEv = db.Ev()
	b.EndT = time.Now()
	b.Finished = true
	db.mu.Unlock()
	if db.OnBlock != nil {
		db.OnBlock(b)
	}
	return err
}

func (c *Client) Close() error {
	c.db.mu.Lock()
	if !c.closed {
		c.closed = true
		c.db.Closed++
	}
	c.db.mu.Unlock()
	return nil
}

var errNotInsert = errors.New("chfake: not supported by the insert face")

func (c *Client) Exec(ctx context.Context, query string, args ...any) error { return errNotInsert }
func (c *Client) Scan(ctx context.Context, req string, args []any, dest ...interface{}) error {
	return errNotInsert
}
func (c *Client) DropIfEmpty(ctx context.Context, name string) error { return errNotInsert }
func (c *Client) TableExists(ctx context.Context, name string) (bool, error) {
	return false, errNotInsert
}
func (c *Client) GetDBExec(env map[string]string) func(ctx context.Context, query string, args ...[]interface{}) error {
	return func(ctx context.Context, query string, args ...[]interface{}) error { return errNotInsert }
}
func (c *Client) GetVersion(ctx context.Context, k uint64) (uint64, error) { return 0, errNotInsert }
func (c *Client) GetSetting(ctx context.Context, tp string, name string) (string, error) {
	return "", errNotInsert
}
func (c *Client) PutSetting(ctx context.Context, tp string, name string, value string) error {
	return errNotInsert
}
func (c *Client) GetFirst(req string, first ...interface{}) error { return errNotInsert }
func (c *Client) GetList(req string) ([]string, error)            { return nil, errNotInsert }
func (c *Client) Query(ctx context.Context, query string, args ...interface{}) (driver.Rows, error) {
	return nil, errNotInsert
}
func (c *Client) QueryRow(ctx context.Context, query string, args ...interface{}) driver.Row {
	return nil
}
