package ingestsim

import (
	"bytes"
	"encoding/json"
	"fmt"
	"regexp"
	"strconv"
	"strings"
	"time"

	"compress/gzip"
	"encoding/binary"
	"encoding/hex"
	"github.com/golang/snappy"
	pprofile "github.com/google/pprof/profile"
	"github.com/metrico/qryn/writer/utils/proto/logproto"
	"github.com/metrico/qryn/writer/utils/proto/prompb"
	otlpCommon "go.opentelemetry.io/proto/otlp/common/v1"
	otlpLogs "go.opentelemetry.io/proto/otlp/logs/v1"
	otlpRes "go.opentelemetry.io/proto/otlp/resource/v1"
	otlpTrace "go.opentelemetry.io/proto/otlp/trace/v1"
	"google.golang.org/protobuf/proto"
)

// ExpRow is what the harness expects to find in ClickHouse for one submitted entry.
type ExpRow struct {
	Req, Stream, Entry int
	Tag                string // unique text inside the line ("" for pure metric points)
	TsNs               int64
	Type               uint64
	Val                float64
	Line               string
	Labels             map[string]string // expected stored label set (nil: not predicted for this protocol)
	LabelKey           string
	Profile            bool   // a pprof profile: one profiles_input row identified by its service name
	Span               bool   // a trace span: one tempo_traces row + tag-index rows
	TraceID, SpanID    string // raw bytes
	DurNs              int64
}

// Wire is an encoded request.
type Wire struct {
	Path        string
	ContentType string
	Encoding    string
	Body        []byte
	Rows        []*ExpRow
}

var reSan = regexp.MustCompile("(^[^a-zA-Z_]|[^a-zA-Z0-9_])")

func sanitizeName(n string) string { return reSan.ReplaceAllString(n, "_") }

func rotate(l [][2]string, k int) [][2]string {
	if len(l) == 0 {
		return l
	}
	k %= len(l)
	return append(append([][2]string{}, l[k:]...), l[:k]...)
}

func labelKey(m map[string]string) string {
	ks := make([]string, 0, len(m))
	for k := range m {
		ks = append(ks, k)
	}
	sortStrings(ks)
	var b strings.Builder
	for _, k := range ks {
		fmt.Fprintf(&b, "%q=%q,", k, m[k])
	}
	return b.String()
}

func sortStrings(s []string) {
	for i := 1; i < len(s); i++ {
		for j := i; j > 0 && s[j] < s[j-1]; j-- {
			s[j], s[j-1] = s[j-1], s[j]
		}
	}
}

// Mutate applies a hostile recipe to an encoded request.
func Mutate(w *Wire, recipe string, n int) {
	b := w.Body
	pos := func() int {
		if len(b) == 0 {
			return 0
		}
		return (n * 7919) % len(b)
	}
	switch recipe {
	case "truncate":
		w.Body = append([]byte{}, b[:pos()]...)
	case "bitflip":
		c := append([]byte{}, b...)
		if len(c) > 0 {
			c[pos()] ^= 1 << uint(n%8)
		}
		w.Body = c
	case "random":
		c := make([]byte, n%300)
		x := uint32(n*2654435761 + 1)
		for i := range c {
			x = x*1664525 + 1013904223
			c[i] = byte(x >> 24)
		}
		w.Body = c
	case "empty":
		w.Body = nil
	case "badsnappy":
		w.Body = append([]byte{0xff, 0xff, 0xff, 0xff, 0x7f}, b...)
	case "snappy-bomb":
		// a snappy block whose header declares far more than follows (a few bytes asking for hundreds of megabytes), or an
		// honest block of zeroes that inflates beyond the 10 MiB the server accepts
		switch n % 3 {
		case 0:
			w.Body = append(binary.AppendUvarint(nil, 256<<20), 0, 0, 0, 0)
		case 1:
			w.Body = append(binary.AppendUvarint(nil, 100<<20+uint64(n)), b...)
		default:
			w.Body = snappy.Encode(nil, make([]byte, 12<<20))
		}
		w.ContentType = "application/x-protobuf"
	case "gzip-bomb":
		// 160 MiB of zeroes in about 160 KiB of gzip
		var zb bytes.Buffer
		zw := gzip.NewWriter(&zb)
		zeros := make([]byte, 1<<20)
		for i := 0; i < 160; i++ {
			zw.Write(zeros)
		}
		zw.Close()
		w.Body = zb.Bytes()
		w.Encoding = "gzip"
		if n%2 == 0 {
			w.ContentType = "application/x-protobuf"
		}
	case "otlp-sparse":
		// OTLP traces whose optional members are absent: a ResourceSpans without resource, an attribute without value,
		// a span without ids
		td := &otlpTrace.TracesData{ResourceSpans: []*otlpTrace.ResourceSpans{{ScopeSpans: []*otlpTrace.ScopeSpans{{Spans: []*otlpTrace.Span{{
			TraceId: []byte("0123456789abcdef"), SpanId: []byte("01234567"), Name: "sparse", StartTimeUnixNano: 1, EndTimeUnixNano: 2}}}}}}}
		switch n % 4 {
		case 3:
			// ids longer than 16 and 8 bytes (a client that sends the hex text instead of the bytes)
			td.ResourceSpans[0].Resource = &otlpRes.Resource{}
			td.ResourceSpans[0].ScopeSpans[0].Spans[0].TraceId = []byte("000102030405060708090a0b0c0d0e0f")
			if n%8 == 7 {
				td.ResourceSpans[0].ScopeSpans[0].Spans[0].TraceId = []byte("0123456789abcdef")
				td.ResourceSpans[0].ScopeSpans[0].Spans[0].SpanId = []byte("012345678")
			}
		case 1:
			td.ResourceSpans[0].Resource = &otlpRes.Resource{Attributes: []*otlpCommon.KeyValue{{Key: "service.name"}, {Key: "peer.service"}}}
		case 2:
			td.ResourceSpans[0].Resource = &otlpRes.Resource{}
			td.ResourceSpans[0].ScopeSpans[0].Spans[0].TraceId, td.ResourceSpans[0].ScopeSpans[0].Spans[0].SpanId = nil, nil
		}
		w.Body, _ = proto.Marshal(td)
		w.Path, w.ContentType = "/v1/traces", "application/x-protobuf"
	case "gzip-header":
		w.Encoding = "gzip"
	case "snappy-header":
		w.Encoding = "snappy"
	case "bad-encoding":
		w.Encoding = "br"
	case "deepnest":
		w.Body = []byte(strings.Repeat("[", 1000+n%4000))
	case "longline":
		// one line beyond what a line scanner buffers (10 MiB), followed by an ordinary one
		// (mostly 70 KiB - beyond bufio.Scanner's default - and now and then 11 MiB, which costs seconds of CPU)
		size := 70 << 10
		if n%8 == 0 {
			size = 11 << 20
		}
		w.Body = append(append([]byte(`{"index":{}}`+"\n"+`{"message":"`), bytes.Repeat([]byte("x"), size)...), []byte(`"}`+"\n"+`{"index":{}}`+"\n"+`{"message":"tail"}`+"\n")...)
	case "wrong-content-type":
		cts := []string{"application/json", "application/x-protobuf", "ndjson", "multipart/form-data; boundary=x", "binary/octet-stream", "", "text/plain"}
		w.ContentType = cts[n%len(cts)]
	case "wrong-route":
		routes := []string{"/loki/api/v1/push", "/influx/api/v2/write?precision=" + []string{"ns", "us", "ms", "s", "xx", ""}[n%6], "/cf/v1/insert?ddsource=x", "/api/v2/series", "/api/v2/logs?ddsource=a",
			"/v1/logs", "/api/v1/prom/remote/write", "/tempo/spans", "/api/v2/spans", "/v1/traces", "/ingest?from=1&until=2&name=app{a=b}", "/ingest?from=x&until=&name={", "/ingest?name=app{&from=1&until=2",
			"/_bulk", "/idx/_doc", "/idx/_create/1", "/idx/_bulk", "/ingest?from=18446744073709551615&until=1&name=a{b=c,d}"}
		w.Path = routes[n%len(routes)]
	case "params":
		// nasty query parameters on the routes that take them, with a content type that reaches the parser
		names := []string{"app", "app{", "app{}", "{", "app{a=b}", "app{a=b,c}", "app{=}", "a{b=c}}", "", strings.Repeat("n", 3000), "app{a=b", "}{", "app%7B"}
		nums := []string{"1", "0", "x", "", "18446744073709551615", "-1", "1e3", "99999999999999999999"}
		switch n % 4 {
		case 0, 1:
			w.Path = fmt.Sprintf("/ingest?from=%s&until=%s&name=%s", nums[(n/4)%3], nums[(n/12)%len(nums)], names[(n/7)%len(names)])
			w.ContentType = []string{"binary/octet-stream", "multipart/form-data; boundary=simboundary", "multipart/form-data"}[(n/5)%3]
		case 2:
			w.Path = "/influx/api/v2/write?precision=" + []string{"ns", "us", "ms", "s", "xx", "", "h"}[(n/4)%7]
		case 3:
			w.Path = []string{"/api/v2/logs?ddsource=", "/cf/v1/insert?ddsource=", "/idx/_doc?x=", "/%00/_bulk?"}[(n/4)%4] + names[(n/16)%len(names)]
		}
	case "short-id":
		// spans with ids of the wrong length
		w.Body = bytes.ReplaceAll(b, []byte(`"traceId":"0000`), []byte(`"traceId":"`))
	}
}

// Encode turns the body model of an operation into wire bytes and the expected rows.
// nowNs is the (simulated) send time.
func Encode(req int, op Op, nowNs int64) *Wire {
	w := &Wire{}
	type encEntry struct {
		ts   int64
		line string
		val  float64
		hasV bool
		hasL bool
	}
	mk := func(si, ei int, e Entry, msPrecision bool) (encEntry, *ExpRow) {
		ts := nowNs - e.AgoMs*1000000 + int64(ei)
		if msPrecision {
			ts = (ts / 1000000) * 1000000
		}
		if e.Snap > 0 {
			ts = nowNs / 86400000000000 * 86400000000000
			if e.Snap == 2 && msPrecision {
				ts -= 1000000
			} else if e.Snap == 2 {
				ts--
			}
		}
		x := &ExpRow{Req: req, Stream: si, Entry: ei, TsNs: ts}
		ee := encEntry{ts: ts}
		if e.Metric {
			x.Val = float64(req)*1e8 + float64(si)*1e5 + float64(ei) + 0.5
			x.Type = 2
			ee.val, ee.hasV = x.Val, true
		} else {
			x.Tag = fmt.Sprintf("q%ds%de%d", req, si, ei)
			x.Line = x.Tag + " msg" + strings.Repeat("x", e.Pad)
			x.Type = 1
			ee.line, ee.hasL = x.Line, true
		}
		return ee, x
	}
	expLabels := func(l [][2]string) map[string]string {
		m := map[string]string{}
		for _, kv := range l {
			v := kv[1]
			if len(v) > 100 {
				v = v[:100] + "..."
			}
			m[sanitizeName(kv[0])] = v
		}
		return m
	}
	switch op.Proto {
	case "loki-json", "loki-json-entries":
		w.Path, w.ContentType = "/loki/api/v1/push", "application/json"
		var streams []any
		for si, s := range op.Streams {
			lbl := rotate(s.Labels, s.Perm)
			exp := expLabels(s.Labels)
			// an ordered JSON object for the labels
			var lb bytes.Buffer
			lb.WriteByte('{')
			for i, kv := range lbl {
				if i > 0 {
					lb.WriteByte(',')
				}
				k, _ := json.Marshal(kv[0])
				v, _ := json.Marshal(kv[1])
				lb.Write(k)
				lb.WriteByte(':')
				lb.Write(v)
			}
			lb.WriteByte('}')
			st := map[string]any{"stream": json.RawMessage(lb.Bytes())}
			if op.Proto == "loki-json" {
				vals := [][]any{}
				for ei, e := range s.Entries {
					ee, x := mk(si, ei, e, false)
					x.Labels, x.LabelKey = exp, labelKey(exp)
					if ee.hasV {
						// [ts, line, value]: line and value both present => type "undefined" (0)
						x.Tag = fmt.Sprintf("q%ds%de%d", req, si, ei)
						x.Line = x.Tag + " both"
						x.Type = 0
						vals = append(vals, []any{strconv.FormatInt(ee.ts, 10), x.Line, ee.val})
					} else if (si+ei)%5 == 3 {
						// Loki's structured metadata: an object as third element; the entry stays a log line
						vals = append(vals, []any{strconv.FormatInt(ee.ts, 10), ee.line, map[string]string{"trace_id": "abc", "n": "1"}})
					} else if (si+ei)%5 == 4 {
						vals = append(vals, []any{strconv.FormatInt(ee.ts, 10), ee.line, nil})
					} else {
						vals = append(vals, []any{strconv.FormatInt(ee.ts, 10), ee.line})
					}
					w.Rows = append(w.Rows, x)
				}
				st["values"] = vals
			} else {
				ents := []map[string]any{}
				for ei, e := range s.Entries {
					ee, x := mk(si, ei, e, false)
					x.Labels, x.LabelKey = exp, labelKey(exp)
					m := map[string]any{"ts": wireTs(ee.ts, si+ei)}
					if ee.hasV {
						m["value"] = ee.val
					} else {
						m["line"] = ee.line
					}
					ents = append(ents, m)
					w.Rows = append(w.Rows, x)
				}
				st["entries"] = ents
			}
			streams = append(streams, st)
		}
		w.Body, _ = json.Marshal(map[string]any{"streams": streams})
		w.Body = rotateKeys(w.Body, keyRot(op))
	case "loki-proto":
		w.Path, w.ContentType = "/loki/api/v1/push", "application/x-protobuf"
		pr := &logproto.PushRequest{}
		for si, s := range op.Streams {
			exp := expLabels(s.Labels)
			var parts []string
			for _, kv := range rotate(s.Labels, s.Perm) {
				parts = append(parts, sanitizeName(kv[0])+"="+strconv.Quote(kv[1]))
			}
			sa := &logproto.StreamAdapter{Labels: "{" + strings.Join(parts, ",") + "}"}
			for ei, e := range s.Entries {
				e.Metric = false
				ee, x := mk(si, ei, e, false)
				x.Labels, x.LabelKey = exp, labelKey(exp)
				sa.Entries = append(sa.Entries, &logproto.EntryAdapter{
					Timestamp: &logproto.Timestamp{Seconds: ee.ts / 1e9, Nanos: int32(ee.ts % 1e9)}, Line: ee.line})
				w.Rows = append(w.Rows, x)
			}
			pr.Streams = append(pr.Streams, sa)
		}
		raw, err := proto.Marshal(pr)
		if err != nil {
			panic(err)
		}
		w.Body = snappy.Encode(nil, raw)
	case "prom-rw":
		w.Path, w.ContentType = "/api/v1/prom/remote/write", "application/x-protobuf"
		wr := &prompb.WriteRequest{}
		for si, s := range op.Streams {
			exp := expLabels(s.Labels)
			ts := &prompb.TimeSeries{}
			for _, kv := range rotate(s.Labels, s.Perm) {
				ts.Labels = append(ts.Labels, &prompb.Label{Name: kv[0], Value: kv[1]})
			}
			for ei, e := range s.Entries {
				e.Metric = true
				ee, x := mk(si, ei, e, true)
				x.Labels, x.LabelKey = exp, labelKey(exp)
				ts.Samples = append(ts.Samples, &prompb.Sample{Value: ee.val, Timestamp: ee.ts / 1000000})
				w.Rows = append(w.Rows, x)
			}
			wr.Timeseries = append(wr.Timeseries, ts)
		}
		raw, err := proto.Marshal(wr)
		if err != nil {
			panic(err)
		}
		w.Body = snappy.Encode(nil, raw)
	case "influx":
		w.Path, w.ContentType = "/influx/api/v2/write", "text/plain"
		esc := func(s string) string {
			// (line protocol: a backslash is literal unless it stands before a comma, an equals sign or a space)
			s = strings.ReplaceAll(s, ",", `\,`)
			s = strings.ReplaceAll(s, "=", `\=`)
			return strings.ReplaceAll(s, " ", `\ `)
		}
		var b bytes.Buffer
		// the unit of the timestamps is a request parameter
		prec := []struct {
			q   string
			div int64
		}{{"", 1}, {"us", 1e3}, {"ms", 1e6}, {"s", 1e9}}[keyRot(op)%4]
		if prec.q != "" {
			w.Path += "?precision=" + prec.q
		}
		for si, s := range op.Streams {
			meas := fmt.Sprintf("m%d", si%2)
			for ei, e := range s.Entries {
				ee, x := mk(si, ei, e, false)
				x.TsNs = (ee.ts / prec.div) * prec.div
				exp := map[string]string{"measurement": meas}
				b.WriteString(meas)
				for _, kv := range rotate(s.Labels, s.Perm) {
					if kv[1] == "" || strings.ContainsAny(kv[1], "\"\n\t\a\u007f\u2028") || len(kv[1]) > 100 || strings.HasSuffix(kv[1], `\`) {
						continue
					}
					n := sanitizeName(kv[0])
					if n == "measurement" {
						continue
					}
					fmt.Fprintf(&b, ",%s=%s", n, esc(kv[1]))
					exp[n] = kv[1]
				}
				if ee.hasV && ei%3 == 1 {
					// two numeric fields on one line: one series each, named after the field; an integer field among them
					exp["__name__"] = "value"
					x2 := *x
					x2.Val = ee.val + 0.25
					exp2 := map[string]string{}
					for k, v := range exp {
						exp2[k] = v
					}
					exp2["__name__"] = "extra_f"
					x2.Labels, x2.LabelKey = exp2, labelKey(exp2)
					fmt.Fprintf(&b, " value=%s,extra-f=%s,note=\"text\" %d\n", strconv.FormatFloat(ee.val, 'f', -1, 64), strconv.FormatFloat(x2.Val, 'f', -1, 64), ee.ts/prec.div)
					x.Labels, x.LabelKey = exp, labelKey(exp)
					w.Rows = append(w.Rows, x, &x2)
					continue
				}
				if ee.hasV {
					exp["__name__"] = "value"
					fmt.Fprintf(&b, " value=%s %d\n", strconv.FormatFloat(ee.val, 'f', -1, 64), ee.ts/prec.div)
				} else if ei%4 == 2 && !strings.ContainsAny(ee.line, "\"\\=") {
					// a log line with further fields (telegraf syslog: message plus severity_code=6i): one log row whose
					// text is the logfmt rendering of all fields, and no metric row
					fmt.Fprintf(&b, " message=%s,severity_code=6i %d\n", strconv.Quote(ee.line), ee.ts/prec.div)
					x.Line = "message=" + strconv.Quote(ee.line) + " severity_code=6"
				} else {
					fmt.Fprintf(&b, " message=%s %d\n", strconv.Quote(ee.line), ee.ts/prec.div)
				}
				x.Labels, x.LabelKey = exp, labelKey(exp)
				w.Rows = append(w.Rows, x)
			}
		}
		w.Body = b.Bytes()
	case "datadog-logs":
		w.Path, w.ContentType = "/api/v2/logs", "application/json"
		var arr []map[string]any
		for si, s := range op.Streams {
			for ei, e := range s.Entries {
				e.Metric = false
				ee, x := mk(si, ei, e, true)
				m := map[string]any{"message": ee.line, "timestamp": ee.ts / 1000000, "ddsource": "sim"}
				exp := map[string]string{"ddsource": "sim", "type": "datadog"}
				// the optional members differ from entry to entry: each entry's stream is made of its own members only
				switch (si + ei) % 4 {
				case 0:
					m["service"], m["hostname"], m["source_type"] = fmt.Sprintf("svc%d", si%2), "h1", "k8s"
					exp["service"], exp["hostname"], exp["source_type"] = fmt.Sprintf("svc%d", si%2), "h1", "k8s"
				case 1:
					m["service"] = fmt.Sprintf("svc%d", si%2)
					exp["service"] = fmt.Sprintf("svc%d", si%2)
				case 3:
					m["hostname"] = "h2"
					exp["hostname"] = "h2"
				}
				var tags []string
				for _, kv := range s.Labels {
					if regexp.MustCompile(`^[a-z]+$`).MatchString(kv[0]) && regexp.MustCompile(`^[a-z0-9]+$`).MatchString(kv[1]) {
						tags = append(tags, kv[0]+":"+kv[1])
						exp[kv[0]] = kv[1]
					}
				}
				// tag names and values may carry more than letters: - . / \ (and : in values), names start with any letter
				switch si % 3 {
				case 1:
					tags = append(tags, `dir\tmp:c:\x`)
					exp[`dir\tmp`] = `c:\x`
				case 2:
					tags = append(tags, `a-b.c/d:v_1/2`, `ünï:wert`)
					exp[`a-b.c/d`], exp[`ünï`] = `v_1/2`, `wert`
				}
				m["ddtags"] = strings.Join(tags, ",")
				x.Labels, x.LabelKey = exp, labelKey(exp)
				arr = append(arr, m)
				w.Rows = append(w.Rows, x)
			}
		}
		if arr == nil {
			arr = []map[string]any{}
		}
		w.Body, _ = json.Marshal(arr)
		w.Body = rotateKeys(w.Body, keyRot(op))
	case "datadog-metrics":
		w.Path, w.ContentType = "/api/v2/series", "application/json"
		var series []map[string]any
		for si, s := range op.Streams {
			var pts []map[string]any
			for ei, e := range s.Entries {
				e.Metric = true
				ee, x := mk(si, ei, e, true)
				x.TsNs = (ee.ts / 1e9) * 1e9
				pts = append(pts, map[string]any{"timestamp": ee.ts / 1e9, "value": ee.val})
				w.Rows = append(w.Rows, x)
			}
			if pts == nil {
				pts = []map[string]any{}
			}
			var res []map[string]any
			exp := map[string]string{"__name__": fmt.Sprintf("metric_%d", si)}
			for i, kv := range s.Labels {
				res = append(res, map[string]any{"name": kv[1], "type": kv[0]})
				exp[fmt.Sprintf("resource%d_name", i+1)] = kv[1]
				exp[fmt.Sprintf("resource%d_type", i+1)] = kv[0]
			}
			for k := len(w.Rows) - len(s.Entries); k < len(w.Rows); k++ {
				w.Rows[k].Labels, w.Rows[k].LabelKey = exp, labelKey(exp)
			}
			series = append(series, map[string]any{"metric": fmt.Sprintf("metric_%d", si), "points": pts, "resources": res})
		}
		w.Body, _ = json.Marshal(map[string]any{"series": series})
		w.Body = rotateKeys(w.Body, keyRot(op))
	case "otlp-logs":
		w.Path, w.ContentType = "/v1/logs", "application/x-protobuf"
		ld := &otlpLogs.LogsData{}
		for si, s := range op.Streams {
			rl := &otlpLogs.ResourceLogs{Resource: &otlpRes.Resource{}}
			for _, kv := range rotate(s.Labels, s.Perm) {
				rl.Resource.Attributes = append(rl.Resource.Attributes, &otlpCommon.KeyValue{Key: kv[0], Value: &otlpCommon.AnyValue{Value: &otlpCommon.AnyValue_StringValue{StringValue: kv[1]}}})
			}
			noResource := si%4 == 3
			if noResource {
				// resource and scope are optional members of the message
				rl.Resource = nil
			}
			sl := &otlpLogs.ScopeLogs{Scope: &otlpCommon.InstrumentationScope{Name: "sim"}}
			if si%2 == 1 {
				sl.Scope = nil
			}
			// a resource with two scopes: the first carries a scope attribute, the second none - records belong to the
			// scope they stand in
			twoScopes := si%3 == 0 && sl.Scope != nil
			var slA *otlpLogs.ScopeLogs
			if twoScopes {
				slA = &otlpLogs.ScopeLogs{Scope: &otlpCommon.InstrumentationScope{Name: "simA", Attributes: []*otlpCommon.KeyValue{
					{Key: "lib.flavour", Value: &otlpCommon.AnyValue{Value: &otlpCommon.AnyValue_StringValue{StringValue: "a"}}}}}}
			}
			otlpKey := func(k string) string {
				k = regexp.MustCompile(`[^a-zA-Z0-9_]`).ReplaceAllString(k, "_")
				if k == "" || (k[0] >= '0' && k[0] <= '9') {
					k = "_" + k
				}
				return k
			}
			for ei, e := range s.Entries {
				e.Metric = false
				ee, x := mk(si, ei, e, false)
				rec := &otlpLogs.LogRecord{TimeUnixNano: uint64(ee.ts), Body: &otlpCommon.AnyValue{Value: &otlpCommon.AnyValue_StringValue{StringValue: ee.line}}}
				exp := map[string]string{}
				for _, kv := range s.Labels {
					if !noResource {
						exp[otlpKey(kv[0])] = kv[1]
					}
				}
				if ei%4 == 3 {
					// typed attribute values: rendered as text
					rec.Attributes = append(rec.Attributes,
						&otlpCommon.KeyValue{Key: "http.status", Value: &otlpCommon.AnyValue{Value: &otlpCommon.AnyValue_IntValue{IntValue: 503}}},
						&otlpCommon.KeyValue{Key: "retry", Value: &otlpCommon.AnyValue{Value: &otlpCommon.AnyValue_BoolValue{BoolValue: true}}})
					exp["http_status"], exp["retry"] = "503", "true"
				}
				// records of one scope differ in their own attributes and severity
				switch ei % 3 {
				case 0:
					rec.Attributes = append(rec.Attributes, &otlpCommon.KeyValue{Key: "rec.kind", Value: &otlpCommon.AnyValue{Value: &otlpCommon.AnyValue_StringValue{StringValue: fmt.Sprintf("k%d", ei%2)}}})
					exp["rec_kind"] = fmt.Sprintf("k%d", ei%2)
				case 1:
					rec.SeverityText = "warn"
					exp["level"] = "warn"
				}
				if twoScopes && ei%2 == 0 {
					exp["lib_flavour"] = "a"
					x.Labels, x.LabelKey = exp, labelKey(exp)
					slA.LogRecords = append(slA.LogRecords, rec)
					w.Rows = append(w.Rows, x)
					continue
				}
				x.Labels, x.LabelKey = exp, labelKey(exp)
				sl.LogRecords = append(sl.LogRecords, rec)
				w.Rows = append(w.Rows, x)
			}
			if twoScopes {
				rl.ScopeLogs = append(rl.ScopeLogs, slA)
			}
			rl.ScopeLogs = append(rl.ScopeLogs, sl)
			ld.ResourceLogs = append(ld.ResourceLogs, rl)
		}
		raw, err := proto.Marshal(ld)
		if err != nil {
			panic(err)
		}
		w.Body = raw
	case "zipkin", "zipkin-nd", "otlp-traces":
		ids := func(si, ei int) (string, string) {
			var t [16]byte
			var sp [8]byte
			binary.BigEndian.PutUint64(t[0:8], uint64(req)+1)
			binary.BigEndian.PutUint64(t[8:16], uint64(si)+1)
			binary.BigEndian.PutUint32(sp[0:4], uint32(req)+1)
			binary.BigEndian.PutUint16(sp[4:6], uint16(si)+1)
			binary.BigEndian.PutUint16(sp[6:8], uint16(ei)+1)
			return string(t[:]), string(sp[:])
		}
		if op.Proto == "otlp-traces" {
			w.Path, w.ContentType = "/v1/traces", "application/x-protobuf"
			td := &otlpTrace.TracesData{}
			for si, s := range op.Streams {
				rs := &otlpTrace.ResourceSpans{Resource: &otlpRes.Resource{}}
				for _, kv := range s.Labels {
					rs.Resource.Attributes = append(rs.Resource.Attributes, &otlpCommon.KeyValue{Key: kv[0], Value: &otlpCommon.AnyValue{Value: &otlpCommon.AnyValue_StringValue{StringValue: kv[1]}}})
				}
				ss := &otlpTrace.ScopeSpans{}
				for ei, e := range s.Entries {
					e.Metric = false
					ee, x := mk(si, ei, e, false)
					x.Span, x.Line = true, ""
					x.TraceID, x.SpanID = ids(si, ei)
					x.DurNs = int64(1000 * (ei + 1))
					ss.Spans = append(ss.Spans, &otlpTrace.Span{TraceId: []byte(x.TraceID), SpanId: []byte(x.SpanID), Name: x.Tag,
						StartTimeUnixNano: uint64(ee.ts), EndTimeUnixNano: uint64(ee.ts + x.DurNs)})
					w.Rows = append(w.Rows, x)
				}
				rs.ScopeSpans = append(rs.ScopeSpans, ss)
				td.ResourceSpans = append(td.ResourceSpans, rs)
			}
			raw, err := proto.Marshal(td)
			if err != nil {
				panic(err)
			}
			w.Body = raw
			break
		}
		w.Path, w.ContentType = "/tempo/spans", "application/json"
		if op.Proto == "zipkin-nd" {
			w.Path, w.ContentType = "/api/v2/spans", "ndjson"
		}
		var spans []json.RawMessage
		for si, s := range op.Streams {
			for ei, e := range s.Entries {
				e.Metric = false
				ee, x := mk(si, ei, e, false)
				x.Span, x.Line = true, ""
				x.TraceID, x.SpanID = ids(si, ei)
				x.TsNs = (ee.ts / 1000) * 1000
				x.DurNs = int64(1000 * (ei + 1))
				tags := map[string]string{}
				for _, kv := range s.Labels {
					tags[kv[0]] = kv[1]
				}
				thex, shex := hex.EncodeToString([]byte(x.TraceID)), hex.EncodeToString([]byte(x.SpanID))
				if ei%3 == 1 {
					// ids without their leading zeroes (64-bit trace ids, lenient clients): the same ids
					thex, shex = strings.TrimLeft(thex, "0"), strings.TrimLeft(shex, "0")
				}
				m := map[string]any{"traceId": thex, "id": shex, "name": x.Tag,
					"timestamp": ee.ts / 1000, "duration": x.DurNs / 1000, "localEndpoint": map[string]any{"serviceName": fmt.Sprintf("svc%d", si)}, "tags": tags}
				if ei%2 == 1 {
					m["timestamp"] = strconv.FormatInt(ee.ts/1000, 10)
				}
				b, _ := json.Marshal(m)
				spans = append(spans, b)
				w.Rows = append(w.Rows, x)
			}
		}
		if op.Proto == "zipkin-nd" {
			var b bytes.Buffer
			for _, sp := range spans {
				b.Write(sp)
				b.WriteByte('\n')
			}
			w.Body = b.Bytes()
		} else {
			if spans == nil {
				spans = []json.RawMessage{}
			}
			w.Body, _ = json.Marshal(spans)
			w.Body = rotateKeys(w.Body, keyRot(op))
		}
	case "elastic-bulk", "elastic-doc":
		// server-side timestamps: TsNs = -1 means "not comparable"
		if op.Proto == "elastic-doc" {
			w.Path, w.ContentType = fmt.Sprintf("/idx%d/_doc", req%3), "application/json"
			x := &ExpRow{Req: req, Tag: fmt.Sprintf("q%ds0e0", req), Type: 1, TsNs: -1}
			pad := 0
			if len(op.Streams) > 0 && len(op.Streams[0].Entries) > 0 {
				pad = op.Streams[0].Entries[0].Pad
			}
			x.Line = fmt.Sprintf(`{"message":"%s doc%s"}`, x.Tag, strings.Repeat("x", pad))
			w.Body = []byte(x.Line)
			w.Rows = append(w.Rows, x)
			break
		}
		w.Path, w.ContentType = "/_bulk", "application/x-ndjson"
		var b bytes.Buffer
		for si, s := range op.Streams {
			for ei, e := range s.Entries {
				x := &ExpRow{Req: req, Stream: si, Entry: ei, Tag: fmt.Sprintf("q%ds%de%d", req, si, ei), Type: 1, TsNs: -1}
				x.Line = fmt.Sprintf(`{"message":"%s bulk%s"}`, x.Tag, strings.Repeat("x", e.Pad))
				action := "index"
				if ei%2 == 1 {
					action = "create"
				}
				// every string member of the action object is a label of the document, its name taken as it is
				exp := map[string]string{"type": "elastic", "_index": fmt.Sprintf("idx%d", si)}
				extra := ""
				switch si % 3 {
				case 1:
					extra = `,"pipe\"line":"p1","routing":"r\\1"`
					exp[`pipe"line`], exp["routing"] = "p1", `r\1`
				case 2:
					extra = `,"dir\\tmp":"x","n":7,"ü":"ö"`
					exp[`dir\tmp`], exp["ü"] = "x", "ö"
				}
				fmt.Fprintf(&b, "{\"%s\":{\"_index\":\"idx%d\"%s}}\n%s\n", action, si, extra, x.Line)
				x.Labels, x.LabelKey = exp, labelKey(exp)
				w.Rows = append(w.Rows, x)
			}
		}
		w.Body = b.Bytes()
	case "pprof", "pprof-multipart":
		tag := fmt.Sprintf("q%ds0e0", req)
		x := &ExpRow{Req: req, Tag: tag, Profile: true, TsNs: (nowNs / 1e9) * 1e9}
		w.Rows = append(w.Rows, x)
		name := tag
		if len(op.Streams) > 0 {
			var kv []string
			for _, l := range op.Streams[0].Labels {
				if regexp.MustCompile(`^[a-z]+$`).MatchString(l[0]) && regexp.MustCompile(`^[a-z0-9]+$`).MatchString(l[1]) {
					kv = append(kv, l[0]+"="+l[1])
				}
			}
			if len(kv) > 0 {
				name += "{" + strings.Join(kv, ",") + "}"
			}
		}
		w.Path = fmt.Sprintf("/ingest?from=%d&until=%d&name=%s", nowNs/1e9, nowNs/1e9+10, name)
		fn := &pprofile.Function{ID: 1, Name: "main.work", SystemName: "main.work", Filename: "main.go"}
		fn2 := &pprofile.Function{ID: 2, Name: "main.main", SystemName: "main.main", Filename: "main.go"}
		loc := &pprofile.Location{ID: 1, Address: 0x1000, Line: []pprofile.Line{{Function: fn, Line: 10}}}
		loc2 := &pprofile.Location{ID: 2, Address: 0x2000, Line: []pprofile.Line{{Function: fn2, Line: 20}}}
		pr := &pprofile.Profile{
			SampleType: []*pprofile.ValueType{{Type: "samples", Unit: "count"}, {Type: "cpu", Unit: "nanoseconds"}},
			PeriodType: &pprofile.ValueType{Type: "cpu", Unit: "nanoseconds"}, Period: 10000000,
			Function: []*pprofile.Function{fn, fn2}, Location: []*pprofile.Location{loc, loc2},
			TimeNanos: nowNs, DurationNanos: 1e9,
		}
		nsamp := 1
		for _, s := range op.Streams {
			nsamp += len(s.Entries)
		}
		if keyRot(op) == 3 {
			// an idle mutex/block profile: sample types and period, no sample
			nsamp = 0
		}
		for i := 0; i < nsamp; i++ {
			pr.Sample = append(pr.Sample, &pprofile.Sample{Location: []*pprofile.Location{loc, loc2}, Value: []int64{int64(i + 1), int64(i+1) * 10000000}})
		}
		var pb bytes.Buffer
		if err := pr.Write(&pb); err != nil {
			panic(err)
		}
		if op.Proto == "pprof" {
			w.ContentType = "binary/octet-stream"
			w.Body = pb.Bytes()
		} else {
			w.ContentType = "multipart/form-data; boundary=simboundary"
			var mb bytes.Buffer
			mb.WriteString("--simboundary\r\nContent-Disposition: form-data; name=\"profile\"; filename=\"profile.pprof\"\r\nContent-Type: application/octet-stream\r\n\r\n")
			mb.Write(pb.Bytes())
			mb.WriteString("\r\n--simboundary--\r\n")
			w.Body = mb.Bytes()
		}
	default:
		panic("unknown proto " + op.Proto)
	}
	// "__ttl_days__" is a control label: unless the request carries a usable X-Ttl-Days header the writer takes the
	// retention from it and stores the series without it
	if ttl, err := strconv.ParseUint(op.TTLHdr, 10, 16); err != nil || ttl == 0 {
		for _, x := range w.Rows {
			if _, ok := x.Labels["__ttl_days__"]; ok {
				m := map[string]string{}
				for k, v := range x.Labels {
					if k != "__ttl_days__" {
						m[k] = v
					}
				}
				x.Labels, x.LabelKey = m, labelKey(m)
			}
		}
	}
	return w
}

// ---- key order of JSON objects on the wire ----
//
// encoding/json writes map keys sorted; real clients do not. rotateKeys re-emits a JSON document with the keys of
// every object rotated by rot positions (rot = 0 keeps the document as it is), values untouched: a streaming decoder
// must not depend on which member of an object arrives first.

type okv struct {
	K string
	V any
}
type oobj []okv

func parseOrdered(dec *json.Decoder) (any, error) {
	t, err := dec.Token()
	if err != nil {
		return nil, err
	}
	switch d := t.(type) {
	case json.Delim:
		switch d {
		case '{':
			var o oobj
			for dec.More() {
				kt, err := dec.Token()
				if err != nil {
					return nil, err
				}
				v, err := parseOrdered(dec)
				if err != nil {
					return nil, err
				}
				o = append(o, okv{kt.(string), v})
			}
			_, err := dec.Token()
			return o, err
		case '[':
			a := []any{}
			for dec.More() {
				v, err := parseOrdered(dec)
				if err != nil {
					return nil, err
				}
				a = append(a, v)
			}
			_, err := dec.Token()
			return a, err
		}
	}
	return t, nil
}

func emitOrdered(b *bytes.Buffer, v any, rot int) {
	switch x := v.(type) {
	case oobj:
		b.WriteByte('{')
		n := len(x)
		for i := 0; i < n; i++ {
			kv := x[(i+rot)%n]
			if i > 0 {
				b.WriteByte(',')
			}
			k, _ := json.Marshal(kv.K)
			b.Write(k)
			b.WriteByte(':')
			emitOrdered(b, kv.V, rot)
		}
		b.WriteByte('}')
	case []any:
		b.WriteByte('[')
		for i, e := range x {
			if i > 0 {
				b.WriteByte(',')
			}
			emitOrdered(b, e, rot)
		}
		b.WriteByte(']')
	case json.Number:
		b.WriteString(string(x))
	default:
		e, _ := json.Marshal(x)
		b.Write(e)
	}
}

func rotateKeys(doc []byte, rot int) []byte {
	if rot <= 0 {
		return doc
	}
	dec := json.NewDecoder(bytes.NewReader(doc))
	dec.UseNumber()
	v, err := parseOrdered(dec)
	if err != nil {
		return doc
	}
	var b bytes.Buffer
	emitOrdered(&b, v, rot)
	return b.Bytes()
}

// keyRot is the rotation of object keys on the wire for an operation (0 = sorted, as encoding/json writes them).
func keyRot(op Op) int {
	if len(op.Streams) == 0 {
		return 0
	}
	return op.Streams[0].Perm
}

// wireTs renders the timestamp of the Loki JSON entries layout ({"ts":..,"line":..}; the values layout takes decimal
// nanoseconds only): nanoseconds as a decimal string, or - for some entries - RFC 3339 with
// nanoseconds, in UTC or with a zone offset (both name the same instant).
func wireTs(ts int64, k int) string {
	switch k % 7 {
	case 3:
		return time.Unix(0, ts).UTC().Format(time.RFC3339Nano)
	case 5:
		return time.Unix(0, ts).In(time.FixedZone("", 2*3600+1800)).Format(time.RFC3339Nano)
	}
	return strconv.FormatInt(ts, 10)
}
