package ingestsim

import (
	"bytes"
	"encoding/json"
	"fmt"
	"regexp"
	"strconv"
	"strings"

	"github.com/golang/snappy"
	"github.com/metrico/qryn/writer/utils/proto/logproto"
	"github.com/metrico/qryn/writer/utils/proto/prompb"
	"google.golang.org/protobuf/proto"
)

// ExpRow is what the harness expects to find in ClickHouse for one submitted entry.
type ExpRow struct {
	Req, Stream, Entry int
	Tag                string // unique text inside the line ("" for pure metric points)
	TsNs               int64
	Type               uint64
	Val                float64
	Line               string
	Labels             map[string]string // expected stored label set (nil: not predicted for this protocol)
	LabelKey           string
}

// Wire is an encoded request.
type Wire struct {
	Path        string
	ContentType string
	Encoding    string
	Body        []byte
	Rows        []*ExpRow
}

var reSan = regexp.MustCompile("(^[^a-zA-Z_]|[^a-zA-Z0-9_])")

func sanitizeName(n string) string { return reSan.ReplaceAllString(n, "_") }

func rotate(l [][2]string, k int) [][2]string {
	if len(l) == 0 {
		return l
	}
	k %= len(l)
	return append(append([][2]string{}, l[k:]...), l[:k]...)
}

func labelKey(m map[string]string) string {
	ks := make([]string, 0, len(m))
	for k := range m {
		ks = append(ks, k)
	}
	sortStrings(ks)
	var b strings.Builder
	for _, k := range ks {
		fmt.Fprintf(&b, "%q=%q,", k, m[k])
	}
	return b.String()
}

func sortStrings(s []string) {
	for i := 1; i < len(s); i++ {
		for j := i; j > 0 && s[j] < s[j-1]; j-- {
			s[j], s[j-1] = s[j-1], s[j]
		}
	}
}

// Encode turns the body model of an operation into wire bytes and the expected rows.
// nowNs is the (simulated) send time.
func Encode(req int, op Op, nowNs int64) *Wire {
	w := &Wire{}
	type encEntry struct {
		ts   int64
		line string
		val  float64
		hasV bool
		hasL bool
	}
	mk := func(si, ei int, e Entry, msPrecision bool) (encEntry, *ExpRow) {
		ts := nowNs - e.AgoMs*1000000 + int64(ei)
		if msPrecision {
			ts = (ts / 1000000) * 1000000
		}
		x := &ExpRow{Req: req, Stream: si, Entry: ei, TsNs: ts}
		ee := encEntry{ts: ts}
		if e.Metric {
			x.Val = float64(req)*1e8 + float64(si)*1e5 + float64(ei) + 0.5
			x.Type = 2
			ee.val, ee.hasV = x.Val, true
		} else {
			x.Tag = fmt.Sprintf("q%ds%de%d", req, si, ei)
			x.Line = x.Tag + " msg" + strings.Repeat("x", e.Pad)
			x.Type = 1
			ee.line, ee.hasL = x.Line, true
		}
		return ee, x
	}
	expLabels := func(l [][2]string) map[string]string {
		m := map[string]string{}
		for _, kv := range l {
			v := kv[1]
			if len(v) > 100 {
				v = v[:100] + "..."
			}
			m[sanitizeName(kv[0])] = v
		}
		return m
	}
	switch op.Proto {
	case "loki-json", "loki-json-entries":
		w.Path, w.ContentType = "/loki/api/v1/push", "application/json"
		var streams []any
		for si, s := range op.Streams {
			lbl := rotate(s.Labels, s.Perm)
			exp := expLabels(s.Labels)
			// an ordered JSON object for the labels
			var lb bytes.Buffer
			lb.WriteByte('{')
			for i, kv := range lbl {
				if i > 0 {
					lb.WriteByte(',')
				}
				k, _ := json.Marshal(kv[0])
				v, _ := json.Marshal(kv[1])
				lb.Write(k)
				lb.WriteByte(':')
				lb.Write(v)
			}
			lb.WriteByte('}')
			st := map[string]any{"stream": json.RawMessage(lb.Bytes())}
			if op.Proto == "loki-json" {
				vals := [][]any{}
				for ei, e := range s.Entries {
					ee, x := mk(si, ei, e, false)
					x.Labels, x.LabelKey = exp, labelKey(exp)
					if ee.hasV {
						// [ts, line, value]: line and value both present => type "undefined" (0)
						x.Tag = fmt.Sprintf("q%ds%de%d", req, si, ei)
						x.Line = x.Tag + " both"
						x.Type = 0
						vals = append(vals, []any{strconv.FormatInt(ee.ts, 10), x.Line, ee.val})
					} else {
						vals = append(vals, []any{strconv.FormatInt(ee.ts, 10), ee.line})
					}
					w.Rows = append(w.Rows, x)
				}
				st["values"] = vals
			} else {
				ents := []map[string]any{}
				for ei, e := range s.Entries {
					ee, x := mk(si, ei, e, false)
					x.Labels, x.LabelKey = exp, labelKey(exp)
					m := map[string]any{"ts": strconv.FormatInt(ee.ts, 10)}
					if ee.hasV {
						m["value"] = ee.val
					} else {
						m["line"] = ee.line
					}
					ents = append(ents, m)
					w.Rows = append(w.Rows, x)
				}
				st["entries"] = ents
			}
			streams = append(streams, st)
		}
		w.Body, _ = json.Marshal(map[string]any{"streams": streams})
	case "loki-proto":
		w.Path, w.ContentType = "/loki/api/v1/push", "application/x-protobuf"
		pr := &logproto.PushRequest{}
		for si, s := range op.Streams {
			exp := expLabels(s.Labels)
			var parts []string
			for _, kv := range rotate(s.Labels, s.Perm) {
				parts = append(parts, sanitizeName(kv[0])+"="+strconv.Quote(kv[1]))
			}
			sa := &logproto.StreamAdapter{Labels: "{" + strings.Join(parts, ",") + "}"}
			for ei, e := range s.Entries {
				e.Metric = false
				ee, x := mk(si, ei, e, false)
				x.Labels, x.LabelKey = exp, labelKey(exp)
				sa.Entries = append(sa.Entries, &logproto.EntryAdapter{
					Timestamp: &logproto.Timestamp{Seconds: ee.ts / 1e9, Nanos: int32(ee.ts % 1e9)}, Line: ee.line})
				w.Rows = append(w.Rows, x)
			}
			pr.Streams = append(pr.Streams, sa)
		}
		raw, err := proto.Marshal(pr)
		if err != nil {
			panic(err)
		}
		w.Body = snappy.Encode(nil, raw)
	case "prom-rw":
		w.Path, w.ContentType = "/api/v1/prom/remote/write", "application/x-protobuf"
		wr := &prompb.WriteRequest{}
		for si, s := range op.Streams {
			exp := expLabels(s.Labels)
			ts := &prompb.TimeSeries{}
			for _, kv := range rotate(s.Labels, s.Perm) {
				ts.Labels = append(ts.Labels, &prompb.Label{Name: kv[0], Value: kv[1]})
			}
			for ei, e := range s.Entries {
				e.Metric = true
				ee, x := mk(si, ei, e, true)
				x.Labels, x.LabelKey = exp, labelKey(exp)
				ts.Samples = append(ts.Samples, &prompb.Sample{Value: ee.val, Timestamp: ee.ts / 1000000})
				w.Rows = append(w.Rows, x)
			}
			wr.Timeseries = append(wr.Timeseries, ts)
		}
		raw, err := proto.Marshal(wr)
		if err != nil {
			panic(err)
		}
		w.Body = snappy.Encode(nil, raw)
	case "influx":
		w.Path, w.ContentType = "/influx/api/v2/write", "text/plain"
		esc := func(s string) string {
			s = strings.ReplaceAll(s, `\`, `\\`)
			s = strings.ReplaceAll(s, ",", `\,`)
			s = strings.ReplaceAll(s, "=", `\=`)
			return strings.ReplaceAll(s, " ", `\ `)
		}
		var b bytes.Buffer
		for si, s := range op.Streams {
			meas := fmt.Sprintf("m%d", si%2)
			for ei, e := range s.Entries {
				ee, x := mk(si, ei, e, false)
				exp := map[string]string{"measurement": meas}
				b.WriteString(meas)
				for _, kv := range rotate(s.Labels, s.Perm) {
					if kv[1] == "" || strings.ContainsAny(kv[1], "\"\n") {
						continue
					}
					n := sanitizeName(kv[0])
					if n == "measurement" {
						continue
					}
					fmt.Fprintf(&b, ",%s=%s", n, esc(kv[1]))
					exp[n] = kv[1]
				}
				if ee.hasV {
					exp["__name__"] = "value"
					fmt.Fprintf(&b, " value=%s %d\n", strconv.FormatFloat(ee.val, 'f', -1, 64), ee.ts)
				} else {
					fmt.Fprintf(&b, " message=%s %d\n", strconv.Quote(ee.line), ee.ts)
				}
				x.Labels, x.LabelKey = exp, labelKey(exp)
				w.Rows = append(w.Rows, x)
			}
		}
		w.Body = b.Bytes()
	default:
		panic("unknown proto " + op.Proto)
	}
	return w
}
