package ingestsim

import (
	"fmt"
	"os"
	"testing"

	"github.com/metrico/qryn/zz_verif/simcheck"
)

// TestIngest explores the ingest simulation for the property named by VERIF_PROPERTY (C01..C05).
func TestIngest(t *testing.T) {
	prop := os.Getenv("VERIF_PROPERTY")
	if prop == "" {
		prop = "C01"
	}
	c := simcheck.NewCollector("ingest")
	defer c.Flush()
	defer func() {
		if r := recover(); r != nil {
			c.HarnessError(fmt.Sprint(r))
			t.Errorf("HARNESS-ERROR %v", r)
		}
	}()
	gen := GenScenario
	if prop == "C05" {
		gen = GenHostileScenario
	}
	simcheck.Explore(t, c, prop, gen, func(s Scenario) *simcheck.RunInfo { return RunIngest(t, s) })
}
