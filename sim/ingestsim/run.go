package ingestsim

import (
	"bytes"
	"compress/gzip"
	"context"
	"encoding/json"
	"fmt"
	"github.com/golang/snappy"
	"hash/fnv"
	"io"
	"net/http"
	"net/http/httptest"
	"os"
	"regexp"
	"runtime/debug"
	"sort"
	"strings"
	"sync"
	"sync/atomic"
	"testing"
	"testing/synctest"
	"time"

	"github.com/metrico/qryn/reader/logql/logql_transpiler_v2/clickhouse_planner"
	"github.com/metrico/qryn/zz_verif/chfake"
	"github.com/metrico/qryn/zz_verif/simcheck"
	"github.com/metrico/qryn/zz_verif/simrt"
)

// ReqRec is the recorded history of one request.
type ReqRec struct {
	ID          int
	Client      int
	Op          Op
	Wire        *Wire
	StartEv     int64
	StatusEv    int64 // event number of the first status written (0: none)
	EndEv       int64
	Status      int
	Statuses    []int // every WriteHeader call
	Returned    bool
	Implicit200 bool
	Panicked    string
	StartT      time.Time
	EndT        time.Time
	Cancelled   bool
	Hostile     bool
	Root        string
	BodyLen     int
}

type respWriter struct {
	h    http.Header
	rec  *ReqRec
	ev   func() int64
	body bytes.Buffer
}

func (w *respWriter) Header() http.Header { return w.h }
func (w *respWriter) WriteHeader(code int) {
	if code < 100 || code > 999 {
		// as net/http does (checkWriteHeaderCode)
		panic(fmt.Sprintf("invalid WriteHeader code %v", code))
	}
	w.rec.Statuses = append(w.rec.Statuses, code)
	if w.rec.StatusEv == 0 {
		w.rec.Status = code
		w.rec.StatusEv = w.ev()
	}
}
func (w *respWriter) Write(b []byte) (int, error) {
	if w.rec.StatusEv == 0 {
		w.WriteHeader(200)
	}
	return w.body.Write(b)
}

// fragReader delivers the body in tape-decided fragments with stalls in between.
type fragReader struct {
	data  []byte
	frag  []int
	i     int
	stall time.Duration
	first bool
}

func (r *fragReader) Read(p []byte) (int, error) {
	if len(r.data) == 0 {
		return 0, io.EOF
	}
	n := len(p)
	if len(r.frag) > 0 {
		if f := r.frag[r.i%len(r.frag)]; f < n {
			n = f
		}
		r.i++
		if r.first && r.stall > 0 && r.i < 6 {
			time.Sleep(r.stall + simrt.Skew())
		}
		r.first = true
	}
	if n > len(r.data) {
		n = len(r.data)
	}
	copy(p, r.data[:n])
	r.data = r.data[n:]
	return n, nil
}
func (r *fragReader) Close() error { return nil }

// run state shared by actors
type runState struct {
	s             Scenario
	ev            atomic.Int64
	mu            sync.Mutex
	reqs          []*ReqRec
	nextID        int
	db            *chfake.DB
	exp           map[string]*ExpRow  // tag -> row
	expVal        map[float64]*ExpRow // metric value -> row
	clientRetries int
	hostile       bool // the run contains hostile requests (rows decoded from mutated bodies are not predictable)
}

func (st *runState) nextEv() int64 { return st.ev.Add(1) }

const simEpoch = 946684800 // 2000-01-01T00:00:00Z, where synctest's clock starts

// Bound returns the simulated-time budget after the last fault within which
// every request must have been answered (derived from the configuration, not
// from implementation constants: chunks x attempts x (write timeout + retry
// delay + flush interval + 1 s reconnect), doubled).
func bound(cfg SysCfg, maxChunks int) time.Duration {
	per := time.Duration(cfg.WriteTimeoutS)*time.Second + time.Duration(cfg.RetryTimeoutS)*time.Second + time.Duration(cfg.DBTimerMs)*time.Millisecond + time.Second
	return 2*time.Duration(maxChunks*cfg.RetryAttempts)*per + 5*time.Second
}

// RunIngest executes one scenario in a bubble and evaluates the oracles of all ingest properties.
func RunIngest(t *testing.T, s Scenario) (ri *simcheck.RunInfo) {
	ri = &simcheck.RunInfo{Faults: map[string]int{}, Probes: map[string]int{}}
	st := &runState{s: s, exp: map[string]*ExpRow{}, expVal: map[float64]*ExpRow{}}
	var harnessErr string
	oldLocal := time.Local
	defer func() { time.Local = oldLocal }()
	simrt.LargestAlloc()
	func() {
		defer func() {
			if r := recover(); r != nil {
				msg := fmt.Sprint(r)
				if !strings.Contains(msg, "blocked goroutines remain") && !strings.Contains(msg, "deadlock") {
					harnessErr = msg + "\n" + string(debug.Stack())
				}
			}
		}()
		synctest.Test(t, func(t *testing.T) {
			st.body(ri)
		})
	}()
	st.memoryOracle(ri, simrt.LargestAlloc())
	if harnessErr != "" {
		panic("harness: " + harnessErr)
	}
	return ri
}

// memoryOracle: the largest single allocation of a run is bounded by what its clients sent (C05: no body terminates the
// process - a few bytes on the wire that make the server reserve gigabytes do, by way of the kernel's OOM killer; the
// size limit on snappy bodies is the mechanism the property names). The allocator is observed through the runtime
// overlay, so nothing has to run out of memory. The harness's own buffers (bodies, block copies) are part of the
// measure; the bound - 128 MiB or 16 times the largest body of the run, whichever is larger - is far above them and far below
// what a declared length can ask for.
func (st *runState) memoryOracle(ri *simcheck.RunInfo, largest uint64) {
	var maxBody uint64
	for _, r := range st.reqs {
		if uint64(r.BodyLen) > maxBody {
			maxBody = uint64(r.BodyLen)
		}
	}
	if os.Getenv("VERIF_DEBUG") == "mem" {
		fmt.Fprintf(os.Stderr, "MEMDEBUG largest=%d maxbody=%d reqs=%d\n", largest, maxBody, len(st.reqs))
	}
	if largest > 0 {
		ri.Probes["largest-single-allocation-observed"]++
	}
	limit := uint64(128 << 20)
	if 16*maxBody > limit {
		limit = 16 * maxBody
	}
	if largest > limit {
		var who []string
		sig := "a single allocation far beyond anything a client sent"
		for _, r := range st.reqs {
			if strings.Contains(r.Op.Hostile, "gzip-bomb") && st.s.ProbeKnown {
				sig = "a gzip-encoded body is inflated without bound into a whole-body buffer"
			}
			if r.Hostile {
				who = append(who, fmt.Sprintf("req%d %s %s body=%dB", r.ID, r.Op.Proto, r.Op.Hostile, r.BodyLen))
			}
		}
		ri.Violations = append(ri.Violations, &simcheck.Violation{Property: "C05", Oracle: "allocation-bomb",
			Signature: sig,
			Detail:    fmt.Sprintf("the process made one allocation of %d bytes in a run whose largest request body is %d bytes (bound %d); hostile requests: %v", largest, maxBody, limit, who)})
	}
}

func (st *runState) body(ri *simcheck.RunInfo) *simrt.Sim {
	s := st.s
	t0 := time.Now()
	if s.Cfg.StartOffsetS > 0 {
		time.Sleep(time.Duration(s.Cfg.StartOffsetS) * time.Second)
	}
	time.Local = time.FixedZone("sim", s.Cfg.TZOffsetMin*60)
	sim := simrt.New(s.Sched, s.SchedSeed)
	sim.SetPreempt(s.Preempt, s.SchedSeed)
	if s.Preempt > 0 {
		// every forced switch is a scheduler grant that does not move the clock
		sim.MaxSpin *= 10
	}
	defer sim.Close()
	st.db = chfake.NewDB(s.Faults, st.nextEv)
	var sys *System
	built := make(chan struct{})
	sim.Spawn("system", func() {
		sys = buildWriter(s.Cfg, st.db)
		close(built)
	})
	select {
	case <-built:
	case <-sim.Killed():
		st.finish(ri, sim, t0, false)
		return sim
	}
	startT := time.Now()
	heal := time.AfterFunc(time.Duration(s.HealMs)*time.Millisecond+simrt.Skew(), st.db.Heal)
	defer heal.Stop()

	var wg sync.WaitGroup
	var total time.Duration
	maxChunks := 1
	for ci, c := range s.Clients {
		var think time.Duration
		for _, op := range c.Ops {
			think += time.Duration(op.ThinkMs) * time.Millisecond
			n := 0
			for _, sx := range op.Streams {
				for _, e := range sx.Entries {
					n += e.Pad + 64
				}
			}
			if ch := n/(1<<20) + 2; ch > maxChunks {
				maxChunks = ch
			}
			think += time.Duration(len(op.Frag)+1) * time.Duration(op.StallUs) * time.Microsecond * 64
		}
		if think > total {
			total = think
		}
		wg.Add(1)
		ci, c := ci, c
		g := sim.Spawn("client", func() {
			defer wg.Done()
			st.client(sim, sys, ci, c)
		})
		_ = g
	}
	nops := 0
	for _, c := range s.Clients {
		if len(c.Ops) > nops {
			nops = len(c.Ops)
		}
	}
	b := bound(s.Cfg, maxChunks)
	deadline := total + time.Duration(s.HealMs)*time.Millisecond + time.Duration(nops)*b
	allDone := make(chan struct{})
	go func() { wg.Wait(); close(allDone) }()
	timedOut := false
	select {
	case <-allDone:
	case <-time.After(deadline):
		timedOut = true
	case <-sim.Killed():
	}
	if !timedOut && !isKilled(sim) {
		// grace for request-spawned goroutines to finish: work started for a request may legitimately
		// outlive its (error) answer by a slow INSERT, a write timeout or pending retries - bounded by B
		step := 4 * time.Duration(s.Cfg.DBTimerMs) * time.Millisecond
		for waited := time.Duration(0); waited < b && !isKilled(sim); waited += step {
			time.Sleep(step)
			if len(requestGoroutines(sim)) == 0 {
				break
			}
		}
	}
	_ = startT
	st.finishWith(ri, sim, sys, t0, timedOut, b)
	return sim
}

func (st *runState) client(sim *simrt.Sim, sys *System, ci int, c Client) {
	ops := append([]Op(nil), c.Ops...)
	for oi := 0; oi < len(ops); oi++ {
		op := ops[oi]
		if op.ThinkMs > 0 {
			time.Sleep(time.Duration(op.ThinkMs)*time.Millisecond + simrt.Skew())
			simrt.Yield("client:after-think")
		}
		st.mu.Lock()
		st.nextID++
		id := st.nextID
		st.mu.Unlock()
		w := Encode(id, op, time.Now().UnixNano())
		if op.Hostile == "" && w.Encoding == "" {
			switch op.Enc {
			case "gzip":
				var zb bytes.Buffer
				zw := gzip.NewWriter(&zb)
				zw.Write(w.Body)
				zw.Close()
				w.Body, w.Encoding = zb.Bytes(), "gzip"
			case "snappy":
				var zb bytes.Buffer
				zw := snappy.NewBufferedWriter(&zb)
				zw.Write(w.Body)
				zw.Close()
				w.Body, w.Encoding = zb.Bytes(), "snappy"
			}
		}
		if op.Hostile != "" {
			for i, rc := range strings.Split(op.Hostile, "+") {
				Mutate(w, rc, op.HostileN+i*31)
			}
		}
		if op.Hostile != "" && strings.HasPrefix(w.Path, "/influx") && !st.s.ProbeKnown {
			// known finding (known_findings.json): a body ending in a backslash makes telegraf's stream parser
			// spin forever. That input class is probed deterministically by the driver and excluded here,
			// because every occurrence costs a worker process and the stall timeout.
			w.Body = bytes.TrimRight(w.Body, "\\")
		}
		rec := &ReqRec{ID: id, Client: ci, Op: op, Wire: w, StartT: time.Now(), BodyLen: len(w.Body), Hostile: op.Hostile != ""}
		if rec.Hostile {
			st.mu.Lock()
			st.hostile = true
			st.mu.Unlock()
		}
		st.mu.Lock()
		st.reqs = append(st.reqs, rec)
		for _, x := range w.Rows {
			if x.Tag != "" {
				st.exp[x.Tag] = x
			} else {
				st.expVal[x.Val] = x
			}
		}
		st.mu.Unlock()
		frag := op.Frag
		if len(w.Body) > 1<<20 {
			// megabytes delivered a few bytes per read cost minutes of wall clock and show nothing a kilobyte does not
			frag = nil
			for _, f := range op.Frag {
				if f < 1000 {
					f = 70000
				}
				frag = append(frag, f)
			}
		}
		body := &fragReader{data: w.Body, frag: frag, stall: time.Duration(op.StallUs) * time.Microsecond}
		ctx, cancel := context.WithCancel(context.Background())
		req := httptest.NewRequest("POST", w.Path, body).WithContext(ctx)
		req.Header.Set("Content-Type", w.ContentType)
		if w.Encoding != "" {
			req.Header.Set("Content-Encoding", w.Encoding)
		}
		if names := NodeNames(st.s.Cfg); len(names) > 1 && op.DSN > 0 {
			req.Header.Set("X-CH-DSN", names[(op.DSN-1)%len(names)])
		}
		if op.Async != "" {
			req.Header.Set("X-Async-Insert", op.Async)
		}
		if op.TTLHdr != "" {
			req.Header.Set("X-Ttl-Days", op.TTLHdr)
		}
		rw := &respWriter{h: http.Header{}, rec: rec, ev: st.nextEv}
		rec.StartEv = st.nextEv()
		func() {
			defer func() {
				if r := recover(); r != nil {
					rec.Panicked = fmt.Sprint(r)
				}
			}()
			sys.Router.ServeHTTP(rw, req)
		}()
		cancel()
		if rec.Panicked == "" && rec.StatusEv == 0 {
			// a handler that returns without writing anything makes net/http answer 200 OK
			rw.WriteHeader(200)
			rec.Implicit200 = true
		}
		rec.EndEv = st.nextEv()
		rec.EndT = time.Now()
		rec.Returned = true
		if op.Retry > 0 && rec.Status >= 500 && op.Hostile == "" {
			// an honest client retries a push that was refused: same streams, same entries, a little later
			again := op
			again.Retry--
			again.ThinkMs = int64(st.s.Cfg.DBTimerMs)
			ops = append(ops[:oi+1], append([]Op{again}, ops[oi+1:]...)...)
			st.mu.Lock()
			st.clientRetries++
			st.mu.Unlock()
		}
		simrt.Yield("client:after-request")
	}
}

// Killed_ reports whether the simulated process is dead (helper on Sim kept here to avoid widening simrt's API).
type simKilled interface{ Killed() <-chan struct{} }

func isKilled(s simKilled) bool {
	select {
	case <-s.Killed():
		return true
	default:
		return false
	}
}

// requestGoroutines lists managed goroutines spawned (transitively) by client actors that are still alive.
func requestGoroutines(sim *simrt.Sim) []string {
	var res []string
	for _, g := range sim.Alive("") {
		if g.Role == "system" || g.Role == "client" || strings.HasPrefix(g.Root, "r001") {
			continue
		}
		res = append(res, fmt.Sprintf("%s(%s)@%s", g.ID, g.Role, g.Site()))
	}
	return res
}

func (st *runState) finish(ri *simcheck.RunInfo, sim *simrt.Sim, t0 time.Time, timedOut bool) {
	st.finishWith(ri, sim, nil, t0, timedOut, 0)
}

type sampleRun struct {
	Cfg       SysCfg         `json:"cfg"`
	Requests  []string       `json:"requests"`
	Blocks    []string       `json:"insert_blocks"`
	Faults    map[string]int `json:"faults_fired"`
	Steps     int64          `json:"scheduler_grants"`
	SimTime   string         `json:"simulated_time"`
	Decisions int64          `json:"decisions_with_choice"`
}

func (st *runState) finishWith(ri *simcheck.RunInfo, sim *simrt.Sim, sys *System, t0 time.Time, timedOut bool, b time.Duration) {
	s := st.s
	// census before teardown
	var leaked []string
	if !isKilled(sim) {
		leaked = requestGoroutines(sim)
	}
	if sys != nil {
		sys.Stop()
	}
	sim.Kill()
	sim.WaitStopped()
	synctest.Wait()

	add := func(p, oracle, sig, detail string) {
		ri.Violations = append(ri.Violations, &simcheck.Violation{Property: p, Oracle: oracle, Signature: sig, Detail: detail})
	}
	st.mu.Lock()
	defer st.mu.Unlock()
	blocks := st.db.Blocks

	// ---- process-level events (C05; also reported under C01 as "no answer")
	for _, c := range sim.Crashes {
		top := firstFrame(c.Stack)
		add("C05", "process-crash", "unrecovered panic in goroutine started at "+c.Role+": "+trimNum(c.Value)+" @ "+top,
			fmt.Sprintf("goroutine %s (%s) panicked with %q and nothing recovered it: the server process terminates. %s", c.Goroutine, c.Role, c.Value, c.Stack))
	}
	if sim.Livelock != "" {
		add("C05", "livelock", "livelock: "+sim.Livelock, sim.Livelock)
	}
	for _, mr := range sim.MapRaces {
		// two goroutines inside one Go map at the same instant abort the process ("concurrent map read and map write")
		add("C05", "unguarded-shared-map", "shared map accessed without its lock: "+reNumsRun.ReplaceAllString(mr, ""), mr)
	}
	for _, code := range sim.Exits {
		add("C05", "process-exit", fmt.Sprintf("os.Exit(%d) reached", code), "the server called os.Exit")
	}
	crashed := len(sim.Crashes) > 0 || sim.Livelock != "" || len(sim.Exits) > 0

	// ---- index of successful blocks
	type loc struct {
		b   *chfake.Block
		row int
	}
	okRows := map[string][]loc{}                 // tag -> successful occurrences
	okVals := map[float64][]loc{}                // metric value -> successful occurrences
	okAttr := map[string][]loc{}                 // span tag -> successful tag-index rows (key "name")
	sentNotOk := map[string]int{}                // tag -> occurrences in sample blocks that did not succeed
	seriesAtN := map[string]map[string][]int64{} // node -> "fp|type|date" -> EndEv of successful series blocks on that node
	fpLabels := map[uint64]map[string]bool{}
	labelFp := map[string]map[uint64]bool{}
	for _, blk := range blocks {
		if !blk.Rect {
			var counts []string
			for _, c := range blk.Cols {
				counts = append(counts, fmt.Sprintf("%s:%d", c.Name, c.Rows))
			}
			add("C02", "non-rectangular-block", "non-rectangular block for "+blk.Table+" ("+colShape(blk)+")",
				fmt.Sprintf("INSERT #%d into %s has columns of different lengths: %v", blk.Seq, blk.Table, counts))
			// C05, last clause: the block is the batch shared with other clients' rows; the server refuses all of it
			add("C05", "shared-batch-corrupted", "a request left the shared batch of "+blk.Table+" with columns of different lengths",
				fmt.Sprintf("INSERT #%d into %s has columns of different lengths: %v - ClickHouse rejects the whole block, also the rows other requests had in it", blk.Seq, blk.Table, counts))
			continue
		}
		switch {
		case strings.HasPrefix(blk.Table, "samples_v3"):
			st.checkSampleBlock(blk, add)
			if !(blk.Finished && blk.Err == nil) {
				// rows that were sent in a block that did not succeed (failed, or still in flight at the end)
				str := blk.Col("string")
				for i := 0; str != nil && i < blk.Rows && i < len(str.Vals); i++ {
					if tag := tagOf(fmt.Sprint(str.Vals[i])); tag != "" {
						sentNotOk[tag]++
					}
				}
			}
			if blk.Finished && blk.Err == nil {
				str, val := blk.Col("string"), blk.Col("value")
				for i := 0; i < blk.Rows; i++ {
					line := str.Vals[i].(string)
					if tag := tagOf(line); tag != "" {
						okRows[tag] = append(okRows[tag], loc{blk, i})
					} else {
						okVals[val.Vals[i].(float64)] = append(okVals[val.Vals[i].(float64)], loc{blk, i})
					}
				}
			}
		case strings.HasPrefix(blk.Table, "profiles_input"):
			sn := blk.Col("service_name")
			if sn == nil {
				add("C02", "profiles-block-columns", "profiles block lacks a column", blk.SQL)
				continue
			}
			seen := map[string]bool{}
			for i := 0; i < blk.Rows; i++ {
				tag := sn.Vals[i].(string)
				x := st.exp[tag]
				if x == nil || !x.Profile {
					if !st.hostile {
						add("C02", "row-not-submitted", "a block contains a row no request submitted", fmt.Sprintf("profiles INSERT #%d row %d: service_name=%q", blk.Seq, i, tag))
					}
					continue
				}
				if seen[tag] {
					add("C02", "row-duplicated-in-block", "a submitted row occurs twice in one block", fmt.Sprintf("profiles INSERT #%d contains profile %s twice", blk.Seq, tag))
				}
				seen[tag] = true
				if blk.Finished && blk.Err == nil {
					okRows[tag] = append(okRows[tag], loc{blk, i})
				}
			}
		case strings.HasPrefix(blk.Table, "tempo_traces_attrs_gin"):
			key, val, sid, tid, ts := blk.Col("key"), blk.Col("val"), blk.Col("span_id"), blk.Col("trace_id"), blk.Col("timestamp_ns")
			if key == nil || val == nil || sid == nil || tid == nil || ts == nil {
				add("C02", "tags-block-columns", "tempo tags block lacks a column", blk.SQL)
				continue
			}
			for i := 0; i < blk.Rows; i++ {
				if key.Vals[i].(string) != "name" {
					continue
				}
				tag := val.Vals[i].(string)
				x := st.exp[tag]
				if x == nil || !x.Span {
					if !st.hostile {
						add("C02", "row-not-submitted", "a block contains a row no request submitted", fmt.Sprintf("tags INSERT #%d row %d: name=%q", blk.Seq, i, tag))
					}
					continue
				}
				if !st.hostileReq(x.Req) && (sid.Vals[i].(string) != x.SpanID || tid.Vals[i].(string) != x.TraceID || ts.Vals[i].(int64) != x.TsNs) {
					add("C02", "row-fields-mixed", "row of entry differs from the submitted entry (tag-index row)",
						fmt.Sprintf("tags INSERT #%d row %d for span %s: span_id=%x trace_id=%x ts=%d; submitted span_id=%x trace_id=%x ts=%d", blk.Seq, i, tag, sid.Vals[i], tid.Vals[i], ts.Vals[i], x.SpanID, x.TraceID, x.TsNs))
				}
				if blk.Finished && blk.Err == nil {
					okAttr[tag] = append(okAttr[tag], loc{blk, i})
				}
			}
		case strings.HasPrefix(blk.Table, "tempo_traces"):
			name, sid, tid, ts, dur := blk.Col("name"), blk.Col("span_id"), blk.Col("trace_id"), blk.Col("timestamp_ns"), blk.Col("duration_ns")
			if name == nil || sid == nil || tid == nil || ts == nil || dur == nil {
				add("C02", "traces-block-columns", "tempo traces block lacks a column", blk.SQL)
				continue
			}
			seen := map[string]bool{}
			for i := 0; i < blk.Rows; i++ {
				tag := name.Vals[i].(string)
				x := st.exp[tag]
				if x == nil || !x.Span {
					if !st.hostile {
						add("C02", "row-not-submitted", "a block contains a row no request submitted", fmt.Sprintf("traces INSERT #%d row %d: name=%q", blk.Seq, i, tag))
					}
					continue
				}
				if seen[tag] {
					add("C02", "row-duplicated-in-block", "a submitted row occurs twice in one block", fmt.Sprintf("traces INSERT #%d contains span %s twice", blk.Seq, tag))
				}
				seen[tag] = true
				if !st.hostileReq(x.Req) && (sid.Vals[i].(string) != x.SpanID || tid.Vals[i].(string) != x.TraceID || ts.Vals[i].(int64) != x.TsNs || dur.Vals[i].(int64) != x.DurNs) {
					add("C02", "row-fields-mixed", "row of entry differs from the submitted entry (span row)",
						fmt.Sprintf("traces INSERT #%d row %d for span %s: span_id=%x trace_id=%x ts=%d dur=%d; submitted span_id=%x trace_id=%x ts=%d dur=%d", blk.Seq, i, tag, sid.Vals[i], tid.Vals[i], ts.Vals[i], dur.Vals[i], x.SpanID, x.TraceID, x.TsNs, x.DurNs))
				}
				if pl := blk.Col("payload"); pl != nil && i < len(pl.Vals) && !st.hostileReq(x.Req) {
					// the stored payload is the span as it was sent: it names this span and no other
					body := fmt.Sprint(pl.Vals[i])
					if bs, ok := pl.Vals[i].([]byte); ok {
						body = string(bs)
					}
					own := false
					foreign := ""
					for _, t := range reTag.FindAllString(body, -1) {
						// (in a protobuf payload the byte after the name may happen to be a digit)
						if strings.HasPrefix(t, tag) {
							own = true
						} else if foreign == "" {
							foreign = t
						}
					}
					if !own || foreign != "" {
						add("C02", "row-fields-mixed", "row of entry differs from the submitted entry (span payload)",
							fmt.Sprintf("traces INSERT #%d row %d is span %s but its payload (%d bytes) names %q (own name present: %v)", blk.Seq, i, tag, len(body), foreign, own))
					}
				}
				if blk.Finished && blk.Err == nil {
					okRows[tag] = append(okRows[tag], loc{blk, i})
				}
			}
		case strings.HasPrefix(blk.Table, "time_series"):
			fp, tp, dt, lb := blk.Col("fingerprint"), blk.Col("type"), blk.Col("date"), blk.Col("labels")
			if fp == nil || tp == nil || dt == nil || lb == nil {
				add("C02", "series-block-columns", "time_series block lacks a column", fmt.Sprint(blk.SQL))
				continue
			}
			for i := 0; i < blk.Rows; i++ {
				f := fp.Vals[i].(uint64)
				doc := lb.Vals[i].(string)
				var m map[string]string
				if err := json.Unmarshal([]byte(doc), &m); err != nil {
					add("C04", "label-document-not-json", "label document is not valid JSON: "+classifyJSONErr(doc),
						fmt.Sprintf("series row fingerprint=%d labels=%q: %v", f, doc, err))
					continue
				}
				key := labelKey(m)
				if fpLabels[f] == nil {
					fpLabels[f] = map[string]bool{}
				}
				fpLabels[f][key] = true
				if labelFp[key] == nil {
					labelFp[key] = map[uint64]bool{}
				}
				labelFp[key][f] = true
				if blk.Finished && blk.Err == nil {
					k := fmt.Sprintf("%d|%d|%d", f, tp.Vals[i].(uint64), dt.Vals[i].(int64))
					if seriesAtN[blk.Node] == nil {
						seriesAtN[blk.Node] = map[string][]int64{}
					}
					seriesAtN[blk.Node][k] = append(seriesAtN[blk.Node][k], blk.EndEv)
				}
			}
		}
	}
	for f, ks := range fpLabels {
		if len(ks) > 1 {
			add("C04", "fingerprint-collision", "two different label sets share one fingerprint", fmt.Sprintf("fingerprint %d stored for label sets %v", f, keys(ks)))
		}
	}
	for k, fs := range labelFp {
		if len(fs) > 1 {
			add("C04", "fingerprint-not-function-of-labels", "one label set got several fingerprints", fmt.Sprintf("label set {%s} stored under fingerprints %v", k, fs))
		}
	}

	// ---- per request oracles
	var reqLines []string
	fired := 0
	for _, n := range st.db.Fired {
		fired += n
	}
	for _, r := range st.reqs {
		reqLines = append(reqLines, fmt.Sprintf("req%d client%d %s streams=%d rows=%d body=%dB status=%d", r.ID, r.Client, r.Op.Proto, len(r.Op.Streams), len(r.Wire.Rows), r.BodyLen, r.Status))
		if len(r.Statuses) > 1 {
			add("C01", "two-answers", "request answered more than once", fmt.Sprintf("req%d (%s) wrote statuses %v", r.ID, r.Op.Proto, r.Statuses))
		}
		if r.Panicked != "" {
			add("C05", "handler-panic", "handler panicked: "+trimNum(r.Panicked), fmt.Sprintf("req%d (%s): panic %q escaped the handler (net/http would abort the connection without a response)", r.ID, r.Op.Proto, r.Panicked))
		}
		if !r.Returned || r.StatusEv == 0 {
			if crashed {
				continue
			}
			what := "never returned"
			if r.Returned {
				what = "returned without writing any status"
			}
			p := "C01"
			if r.Hostile {
				p = "C05"
			}
			add(p, "no-answer", fmt.Sprintf("%s request %s within the bound", r.Op.Proto, what),
				fmt.Sprintf("req%d (%s, %d rows) %s; last fault stopped at +%dms, bound per request %v, simulated now %v", r.ID, r.Op.Proto, len(r.Wire.Rows), what, s.HealMs, b, time.Since(t0)))
			if p == "C01" {
				add("C05", "no-answer", fmt.Sprintf("%s request %s within the bound", r.Op.Proto, what), "see C01")
			}
			continue
		}
		ok2xx := r.Status >= 200 && r.Status < 300
		if r.Hostile {
			continue // any status is acceptable for a hostile body; its rows are not predictable
		}
		if !ok2xx {
			if fired == 0 && !r.Hostile && len(st.s.Faults) == 0 && st.s.Cfg.RetryAttempts > 0 {
				add("C03", "well-formed-body-rejected", fmt.Sprintf("well-formed %s body answered %d without any fault", r.Op.Proto, r.Status),
					fmt.Sprintf("req%d (%s) streams=%s got status %d in a fault-free run", r.ID, r.Op.Proto, describeStreams(r.Op), r.Status))
			}
			continue
		}
		// C01: every row in a successful block that ended before the status was written
		missing, late, dup, elsewhere := 0, 0, 0, 0
		var firstMissing *ExpRow
		for _, x := range r.Wire.Rows {
			var ls []loc
			if x.Tag != "" {
				ls = okRows[x.Tag]
			} else {
				ls = okVals[x.Val]
			}
			before := 0
			for _, l := range ls {
				if l.b.EndEv < r.StatusEv {
					before++
				}
			}
			if x.Span && len(ls) > 0 {
				// the span's tag-index rows must be durable too
				ab := 0
				for _, l := range okAttr[x.Tag] {
					if l.b.EndEv < r.StatusEv && l.b.Node == ls[0].b.Node {
						ab++
					}
				}
				if len(okAttr[x.Tag]) == 0 {
					ls = nil
				} else if ab == 0 {
					before = 0
				}
			}
			if len(ls) == 0 {
				missing++
				if x.Tag != "" && sentNotOk[x.Tag] > 0 {
					elsewhere++
				}
				if firstMissing == nil {
					firstMissing = x
				}
			} else if before == 0 {
				late++
				if firstMissing == nil {
					firstMissing = x
				}
			}
			if len(ls) > 1 {
				dup++
			}
		}
		if missing+late > 0 {
			add("C01", "ack-without-successful-insert", fmt.Sprintf("%s push acknowledged %d but rows were in no successful INSERT before the answer", r.Op.Proto, r.Status),
				fmt.Sprintf("req%d (%s) got %d; %d of %d rows are in no successful INSERT at all, %d only in INSERTs that completed after the status was written; first: %+v; blocks: %s",
					r.ID, r.Op.Proto, r.Status, missing, len(r.Wire.Rows), late, firstMissing, st.blockSummary(20)))
		}
		if elsewhere > 0 {
			// C02, last clause: the request was told "success" - the outcome of some other block - while its rows went
			// out only in blocks that did not succeed
			add("C02", "reported-outcome-of-another-block", fmt.Sprintf("%s push was told success although its rows were only in INSERTs that failed", r.Op.Proto),
				fmt.Sprintf("req%d (%s) got %d; %d of its %d rows were sent only in blocks that failed or never finished, none in a successful one; first: %+v; blocks: %s",
					r.ID, r.Op.Proto, r.Status, elsewhere, len(r.Wire.Rows), firstMissing, st.blockSummary(20)))
		}
		// C03: exactly one faithful row per entry in the successful blocks
		if missing > 0 {
			add("C03", "entry-dropped", fmt.Sprintf("%s: acknowledged entry has no row", r.Op.Proto),
				fmt.Sprintf("req%d (%s): %d of %d entries have no row in any successful block; first %+v", r.ID, r.Op.Proto, missing, len(r.Wire.Rows), firstMissing))
		}
		if dup > 0 {
			add("C03", "entry-duplicated", fmt.Sprintf("%s: entry stored more than once in successful blocks", r.Op.Proto),
				fmt.Sprintf("req%d (%s): %d entries occur in more than one successfully inserted row", r.ID, r.Op.Proto, dup))
		}
		// stream identity + C04 index coverage
		fpOfStream := map[string]uint64{}
		for _, x := range r.Wire.Rows {
			if x.Span || x.Profile {
				continue
			}
			var ls []loc
			if x.Tag != "" {
				ls = okRows[x.Tag]
			} else {
				ls = okVals[x.Val]
			}
			for _, l := range ls {
				f := l.b.Col("fingerprint").Vals[l.row].(uint64)
				sk := fmt.Sprintf("%d|%s", x.Stream, x.LabelKey)
				if prev, ok := fpOfStream[sk]; ok && prev != f {
					add("C03", "stream-split", fmt.Sprintf("%s: entries of one stream stored under different fingerprints", r.Op.Proto),
						fmt.Sprintf("req%d stream %d: fingerprints %d and %d", r.ID, x.Stream, prev, f))
				}
				fpOfStream[sk] = f
				// expected label set versus the stored document of that fingerprint
				if x.Labels != nil {
					if ks := fpLabels[f]; len(ks) > 0 && !ks[x.LabelKey] {
						add("C04", "label-document-mismatch", fmt.Sprintf("%s: stored label document differs from the pushed label set", r.Op.Proto),
							fmt.Sprintf("req%d stream %d pushed {%s}; fingerprint %d is stored with %v", r.ID, x.Stream, x.LabelKey, f, keys(ks)))
						add("C03", "entry-reattributed", fmt.Sprintf("%s: entry stored under the fingerprint of another label set", r.Op.Proto),
							fmt.Sprintf("req%d stream %d entry %d pushed with labels {%s} is stored under fingerprint %d whose series document is %v", r.ID, x.Stream, x.Entry, x.LabelKey, f, keys(ks)))
					}
				}
				// C04 discoverability: an index row (fp, type or 0, day) durable before the ack,
				// with day between the reader's own lower bound for a window starting at the sample and the sample's UTC day
				if l.b.EndEv < r.StatusEv && !strings.HasSuffix(l.b.Table, "_dist") {
					tp := l.b.Col("type").Vals[l.row].(uint64)
					ts := l.b.Col("timestamp_ns").Vals[l.row].(int64)
					tm := time.Unix(0, ts)
					lo := dayOf(clickhouse_planner.FormatFromDate(tm))
					hi := ts / 1e9 / 86400
					if ts < 0 && (ts/1e9)%86400 != 0 {
						hi--
					}
					found := false
					seriesAt := seriesAtN[l.b.Node] // the nodes are independent servers: the index row has to be where the sample is
					for d := lo; d <= hi && !found; d++ {
						for _, tt := range []uint64{tp, 0} {
							for _, ev := range seriesAt[fmt.Sprintf("%d|%d|%d", f, tt, d)] {
								if ev < r.StatusEv {
									found = true
								}
							}
						}
					}
					if !found {
						var have []string
						for k := range seriesAt {
							if strings.HasPrefix(k, fmt.Sprintf("%d|", f)) {
								have = append(have, k)
							}
						}
						sort.Strings(have)
						xx := *x
						xx.TsNs = ts
						sig := st.classifyIndexMiss(l.b.Node, f, tp, lo, hi, have, r, &xx)
						for on, m := range seriesAtN {
							// (only when the history of this node does not explain the miss)
							for d := lo; d <= hi && on != l.b.Node && strings.HasPrefix(sig, "no series row at all"); d++ {
								for _, tt := range []uint64{tp, 0} {
									for _, ev := range m[fmt.Sprintf("%d|%d|%d", f, tt, d)] {
										if ev < r.StatusEv {
											sig = "no series row at all on the sample's node, its series row is on another configured node"
											have = append(have, fmt.Sprintf("(on node %s: %d|%d|%d)", on, f, tt, d))
										}
									}
								}
							}
						}
						add("C04", "acked-sample-not-indexed", sig,
							fmt.Sprintf("req%d (%s, X-CH-DSN index %d, sample on node %q) acknowledged %d at ev %d (started ev %d); sample ts=%s type=%d fingerprint=%d has no successfully inserted series row with day in [%d,%d] before the ack; series rows of that fingerprint (fp|type|day): %v; tz offset %d min; blocks: %s",
								r.ID, r.Op.Proto, r.Op.DSN, l.b.Node, r.Status, r.StatusEv, r.StartEv, tm.UTC().Format(time.RFC3339Nano), tp, f, lo, hi, have, s.Cfg.TZOffsetMin, st.blockSummary(30)))
					}
				}
			}
		}
	}
	// distinct label sets of the run must map to distinct fingerprints (over the rows we predicted)
	setOfFp := map[uint64]map[string]bool{}
	for _, r := range st.reqs {
		for _, x := range r.Wire.Rows {
			if x.Labels == nil || x.Span || x.Profile {
				continue
			}
			var ls []loc
			if x.Tag != "" {
				ls = okRows[x.Tag]
			} else {
				ls = okVals[x.Val]
			}
			for _, l := range ls {
				f := l.b.Col("fingerprint").Vals[l.row].(uint64)
				if setOfFp[f] == nil {
					setOfFp[f] = map[string]bool{}
				}
				setOfFp[f][x.LabelKey] = true
			}
		}
	}
	for f, ks := range setOfFp {
		if len(ks) > 1 {
			add("C04", "fingerprint-collision", "two different label sets share one fingerprint", fmt.Sprintf("samples of label sets %v all carry fingerprint %d", keys(ks), f))
		}
	}
	if len(leaked) > 0 && !crashed && !timedOut {
		add("C05", "goroutine-leak", "goroutine started for a request still alive after quiescence: "+siteOnly(leaked[0]),
			fmt.Sprintf("all requests were answered and the grace period passed, but %d request goroutines are still alive: %v", len(leaked), leaked))
	}

	// ---- coverage
	for k, v := range st.db.Fired {
		ri.Faults[k] += v
	}
	h := fnv.New64a()
	fmt.Fprintf(h, "%x|%d", sim.TraceHash(), len(blocks))
	ri.Hash = h.Sum64()
	ri.Steps = sim.Steps
	if sim.Resumes > 0 {
		ri.Probes["woke-outside-the-baton-and-requeued"] += int(sim.Resumes)
	}
	ri.SimNanos = int64(time.Since(t0)) - s.Cfg.StartOffsetS*1e9
	ri.NonTrivial = fired > 0 || sim.Multi > 0
	if sim.Preempts > 0 {
		ri.Faults["sched-preempt-between-sync-ops"] += int(sim.Preempts)
	}
	st.probes(ri, blocks)
	var bl []string
	for i, blk := range blocks {
		if i >= 12 {
			break
		}
		bl = append(bl, fmt.Sprintf("#%d %s rows=%d fault=%s err=%v", blk.Seq, blk.Table, blk.Rows, blk.Fault, blk.Err))
	}
	if len(reqLines) > 12 {
		reqLines = reqLines[:12]
	}
	ri.Sample = sampleRun{Cfg: s.Cfg, Requests: reqLines, Blocks: bl, Faults: st.db.Fired, Steps: sim.Steps, SimTime: time.Since(t0).String(), Decisions: sim.Multi}
}

func (st *runState) probes(ri *simcheck.RunInfo, blocks []*chfake.Block) {
	p := ri.Probes
	inflight := map[int]*chfake.Block{}
	_ = inflight
	for _, r := range st.reqs {
		if r.BodyLen > 1<<20 {
			p["request-parsed-into-several-chunks"]++
		}
		for _, blk := range blocks {
			if blk.Finished && blk.StartEv < r.StartEv && r.StartEv < blk.EndEv {
				p["request-arrived-while-insert-in-flight"]++
				break
			}
		}
		if r.Status >= 500 {
			p["request-answered-5xx"]++
		}
		if r.Op.Retry > 0 && r.Status >= 500 {
			p["client-retried-after-5xx"]++
		}
		if r.Status >= 200 && r.Status < 300 {
			p["request-answered-2xx"]++
			if !r.Hostile {
				p["acked-"+r.Op.Proto]++
			}
		}
	}
	if st.db.Refused > 0 && st.db.Opened > 0 {
		p["reconnect-refused-then-accepted"]++
	}
	if st.db.Closed > 0 {
		p["connection-dropped-after-error"]++
	}
	for _, blk := range blocks {
		if blk.Err != nil {
			p["insert-failed"]++
		}
	}
	if st.s.Cfg.TZOffsetMin < 0 {
		p["zone-west-of-utc"]++
	}
	if st.s.Cfg.TZOffsetMin > 0 {
		p["zone-east-of-utc"]++
	}
}

func (st *runState) checkSampleBlock(blk *chfake.Block, add func(p, oracle, sig, detail string)) {
	str, val, ts, tp, fp := blk.Col("string"), blk.Col("value"), blk.Col("timestamp_ns"), blk.Col("type"), blk.Col("fingerprint")
	if str == nil || val == nil || ts == nil || tp == nil || fp == nil {
		add("C02", "sample-block-columns", "samples block lacks a column", blk.SQL)
		return
	}
	seen := map[string]bool{}
	for i := 0; i < blk.Rows; i++ {
		line := str.Vals[i].(string)
		v := val.Vals[i].(float64)
		var x *ExpRow
		id := ""
		if tag := tagOf(line); tag != "" {
			x, id = st.exp[tag], tag
		} else {
			x, id = st.expVal[v], fmt.Sprintf("v%v", v)
		}
		if x == nil {
			if !st.hostile {
				add("C02", "row-not-submitted", "a block contains a row no request submitted",
					fmt.Sprintf("INSERT #%d row %d: ts=%d type=%d value=%v line=%.60q matches no submitted entry", blk.Seq, i, ts.Vals[i], tp.Vals[i], v, line))
				// C03: exactly one sample per submitted entry - a sample that stands for no entry is one too many
				add("C03", "row-without-entry", "a stored sample belongs to no submitted entry",
					fmt.Sprintf("INSERT #%d row %d: ts=%d type=%d value=%v line=%.60q matches no submitted entry", blk.Seq, i, ts.Vals[i], tp.Vals[i], v, line))
			}
			continue
		}
		if st.hostileReq(x.Req) {
			continue
		}
		if seen[id] {
			add("C02", "row-duplicated-in-block", "a submitted row occurs twice in one block",
				fmt.Sprintf("INSERT #%d contains entry %s (req%d) twice", blk.Seq, id, x.Req))
		}
		seen[id] = true
		gotTs, gotTp := ts.Vals[i].(int64), tp.Vals[i].(uint64)
		if x.TsNs == -1 {
			gotTs = -1 // server-side timestamp (Elastic routes): not comparable
		}
		if gotTs != x.TsNs || gotTp != x.Type || (x.Tag != "" && line != x.Line) || (x.Type != 1 && v != x.Val) {
			prop, oracle := "C02", "row-fields-mixed"
			// is the mismatching field another submitted row's field (interleaving) or a decoding error?
			if gotTp != x.Type && gotTs == x.TsNs {
				prop, oracle = "C03", "entry-type-wrong"
			} else if gotTs != x.TsNs && st.noOtherTs(gotTs) {
				prop, oracle = "C03", "entry-timestamp-wrong"
			}
			add(prop, oracle, fmt.Sprintf("row of entry differs from the submitted entry (%s)", oracle),
				fmt.Sprintf("INSERT #%d row %d for entry %s of req%d: got ts=%d type=%d value=%v line=%.50q; submitted ts=%d type=%d value=%v line=%.50q",
					blk.Seq, i, id, x.Req, gotTs, gotTp, v, line, x.TsNs, x.Type, x.Val, x.Line))
		}
	}
}

func (st *runState) hostileReq(id int) bool {
	for _, r := range st.reqs {
		if r.ID == id {
			return r.Hostile
		}
	}
	return false
}

func (st *runState) noOtherTs(ts int64) bool {
	for _, x := range st.exp {
		if x.TsNs == ts {
			return false
		}
	}
	for _, x := range st.expVal {
		if x.TsNs == ts {
			return false
		}
	}
	return true
}

// classifyIndexMiss turns a missing index row into a signature that names the history class.
func (st *runState) classifyIndexMiss(node string, f, tp uint64, lo, hi int64, have []string, r *ReqRec, x *ExpRow) string {
	// (1) a series row for this key was submitted by some push, but its INSERT had not succeeded when
	// this push was acknowledged (failed, still in flight, or completed later)
	pending := false
	for _, blk := range st.db.Blocks {
		if !strings.HasPrefix(blk.Table, "time_series") || !blk.Rect || blk.Node != node {
			continue
		}
		if blk.Finished && blk.Err == nil && blk.EndEv < r.StatusEv {
			continue
		}
		if blk.StartEv > r.StatusEv {
			continue
		}
		fc, tc, dc := blk.Col("fingerprint"), blk.Col("type"), blk.Col("date")
		if fc == nil || tc == nil || dc == nil {
			continue
		}
		for i := 0; i < blk.Rows; i++ {
			d := dc.Vals[i].(int64)
			if fc.Vals[i].(uint64) == f && (tc.Vals[i].(uint64) == tp || tc.Vals[i].(uint64) == 0) && d >= lo && d <= hi {
				pending = true
			}
		}
	}
	if !pending {
		// the series row may not even have been sent yet: it belongs to the push that claimed the cache
		// entry first; if that is another push, this is the same history class. Who pushed samples of
		// this (fingerprint, type, day) is read off the sample blocks (whatever their outcome).
		day := func(ts int64) int64 { return time.Unix(0, ts).UTC().Unix() / 86400 }
		// (a stream claims the cross product of the days and types it contains)
		daysOf, typesOf := map[int]map[int64]bool{}, map[int]map[uint64]bool{}
		for _, blk := range st.db.Blocks {
			if !strings.HasPrefix(blk.Table, "samples_v3") || !blk.Rect || blk.Node != node {
				continue
			}
			fc, tc, sc, vc, tsc := blk.Col("fingerprint"), blk.Col("type"), blk.Col("string"), blk.Col("value"), blk.Col("timestamp_ns")
			if fc == nil || tc == nil || sc == nil || vc == nil || tsc == nil {
				continue
			}
			for i := 0; i < blk.Rows; i++ {
				if fc.Vals[i].(uint64) != f {
					continue
				}
				var y *ExpRow
				if tag := tagOf(sc.Vals[i].(string)); tag != "" {
					y = st.exp[tag]
				} else {
					y = st.expVal[vc.Vals[i].(float64)]
				}
				if y == nil {
					continue
				}
				if daysOf[y.Req] == nil {
					daysOf[y.Req], typesOf[y.Req] = map[int64]bool{}, map[uint64]bool{}
				}
				daysOf[y.Req][day(tsc.Vals[i].(int64))] = true
				typesOf[y.Req][tc.Vals[i].(uint64)] = true
			}
		}
		claimers := map[int]bool{}
		for id := range daysOf {
			if daysOf[id][day(x.TsNs)] && typesOf[id][tp] {
				claimers[id] = true
			}
		}
		for _, o := range st.reqs {
			if o.ID != r.ID && o.StartEv < r.StatusEv && claimers[o.ID] {
				pending = true
			}
		}
	}
	if pending {
		return "the (day,fingerprint,type) cache was set by a push whose series INSERT had not succeeded (failed or still in flight); this push was acknowledged without a durable series row"
	}
	// (2) a row for this fingerprint exists but under a day outside [lo,hi]
	for _, k := range have {
		var ff, tt uint64
		var d int64
		fmt.Sscanf(k, "%d|%d|%d", &ff, &tt, &d)
		if (tt == tp || tt == 0) && d >= lo && d <= hi {
			return "series row for the sample's day exists but completed after the ack"
		}
	}
	for _, k := range have {
		var ff, tt uint64
		var d int64
		fmt.Sscanf(k, "%d|%d|%d", &ff, &tt, &d)
		if (tt == tp || tt == 0) && d < lo {
			return fmt.Sprintf("series row stored only under an earlier day than the reader searches (zone offset %+d min)", st.s.Cfg.TZOffsetMin)
		}
		if (tt == tp || tt == 0) && d > hi {
			return "series row stored only under a later day than the sample"
		}
	}
	if len(have) > 0 {
		return "series row exists only with another type"
	}
	return "no series row at all for an acknowledged sample"
}

func (st *runState) blockSummary(n int) string {
	var b []string
	for i, blk := range st.db.Blocks {
		if i >= n {
			break
		}
		b = append(b, fmt.Sprintf("#%d %s rows=%d ev=[%d,%d] fault=%s err=%v", blk.Seq, blk.Table, blk.Rows, blk.StartEv, blk.EndEv, blk.Fault, blk.Err))
	}
	return strings.Join(b, "; ")
}

var reTag = regexp.MustCompile(`q[0-9]+s[0-9]+e[0-9]+`)

// tagOf finds the run-unique entry tag inside a stored line.
func tagOf(line string) string {
	if len(line) > 400 {
		line = line[:400]
	}
	return reTag.FindString(line)
}

func colShape(b *chfake.Block) string {
	// which columns are longer than the first one
	var longer, shorter []string
	for _, c := range b.Cols[1:] {
		if c.Rows > b.Cols[0].Rows {
			longer = append(longer, c.Name)
		} else if c.Rows < b.Cols[0].Rows {
			shorter = append(shorter, c.Name)
		}
	}
	return fmt.Sprintf("longer than %s: %v shorter: %v", b.Cols[0].Name, longer, shorter)
}

func dayOf(date string) int64 {
	t, err := time.Parse("2006-01-02", date)
	if err != nil {
		panic("FormatFromDate returned " + date)
	}
	return t.Unix() / 86400
}

func keys(m map[string]bool) []string {
	var r []string
	for k := range m {
		r = append(r, k)
	}
	sort.Strings(r)
	return r
}

func classifyJSONErr(doc string) string {
	for _, esc := range []string{`\a`, `\v`, `\x`, `\U`} {
		if strings.Contains(doc, esc) {
			return "escape " + esc + " is not JSON"
		}
	}
	return "other"
}

func describeStreams(op Op) string {
	var p []string
	for _, s := range op.Streams {
		p = append(p, fmt.Sprintf("{labels=%d entries=%d}", len(s.Labels), len(s.Entries)))
	}
	return strings.Join(p, ",")
}

func firstFrame(stack string) string {
	// first frame below the panic machinery that belongs to the repository
	lines := strings.Split(stack, "\n")
	for i, l := range lines {
		if strings.HasPrefix(l, "github.com/metrico/qryn/") && !strings.Contains(l, "zz_verif") && i+1 < len(lines) {
			fn := l
			if j := strings.LastIndex(fn, "("); j > 0 {
				fn = fn[:j]
			}
			return strings.TrimPrefix(fn, "github.com/metrico/qryn/")
		}
	}
	return "?"
}

func trimNum(s string) string {
	// strip numbers so that one defect has one signature
	var b strings.Builder
	for _, r := range s {
		if r >= '0' && r <= '9' {
			continue
		}
		b.WriteRune(r)
	}
	if b.Len() > 120 {
		return b.String()[:120]
	}
	return b.String()
}

func siteOnly(s string) string {
	if i := strings.Index(s, "("); i >= 0 {
		return s[i:]
	}
	return s
}

var reNumsRun = regexp.MustCompile(`r[0-9.]+|[0-9]+ goroutines`)
