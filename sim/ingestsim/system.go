package ingestsim

import (
	"io"
	"time"

	"github.com/gorilla/mux"
	clconfig "github.com/metrico/cloki-config"
	"github.com/metrico/cloki-config/config"
	"github.com/metrico/qryn/writer/ch_wrapper"
	wconfig "github.com/metrico/qryn/writer/config"
	controllerv1 "github.com/metrico/qryn/writer/controller"
	"github.com/metrico/qryn/writer/model"
	"github.com/metrico/qryn/writer/plugin"
	"github.com/metrico/qryn/writer/service"
	"github.com/metrico/qryn/writer/service/impl"
	wlogger "github.com/metrico/qryn/writer/utils/logger"
	"github.com/metrico/qryn/writer/watchdog"
	"github.com/metrico/qryn/zz_verif/chfake"
)

// System is one incarnation of the writer process.
type System struct {
	Router *mux.Router
	svcs   []service.InsertSvcMap
}

// buildWriter assembles the real writer the way writer.Init does, except that
// the database sessions are the simulated ClickHouse (Initialize only dials
// sockets and runs health checks) and the process watchdog is defused after the
// real wiring started it. Must run on a managed goroutine so that every service
// goroutine is spawned under the scheduler.
func buildWriter(cfg SysCfg, db *chfake.DB) *System {
	wlogger.Logger.SetOutput(io.Discard)
	cc := &clconfig.ClokiConfig{Setting: &config.ClokiBaseSettingServer{}}
	st := cc.Setting
	st.SYSTEM_SETTINGS.DBTimer = float64(cfg.DBTimerMs) / 1000
	st.SYSTEM_SETTINGS.DBBulk = cfg.DBBulk
	st.SYSTEM_SETTINGS.ChannelsSample = cfg.ChSample
	st.SYSTEM_SETTINGS.ChannelsTimeSeries = cfg.ChTS
	st.SYSTEM_SETTINGS.RetryAttempts = cfg.RetryAttempts
	st.SYSTEM_SETTINGS.RetryTimeoutS = cfg.RetryTimeoutS
	st.FingerPrintType = cfg.FPType
	st.HTTP_SETTINGS.InputBufferMB = 200
	var nodes []config.ClokiBaseDataBase
	var nmap []model.DataDatabasesMap
	var facs []ch_wrapper.IChClientFactory
	for i, name := range NodeNames(cfg) {
		node := config.ClokiBaseDataBase{Node: name, Name: "qryn", Host: "sim", WriteTimeout: uint32(cfg.WriteTimeoutS), ClusterName: cfg.Cluster, Primary: i == 0}
		nodes = append(nodes, node)
		nmap = append(nmap, model.DataDatabasesMap{ClokiBaseDataBase: node})
		if cfg.Nodes > 1 {
			facs = append(facs, db.FactoryFor(name))
		} else {
			facs = append(facs, db.Factory())
		}
	}
	st.DATABASE_DATA = nodes
	wconfig.Cloki = cc

	poolSize := (cfg.ChTS*2*2+cfg.ChSample*2*11)*len(nodes) + 20
	service.CreateColPools(int32(poolSize))

	plugin.MainNode = ""
	for _, m := range []service.InsertSvcMap{plugin.TsSvcs, plugin.SplSvcs, plugin.MtrSvcs, plugin.TempoSamplesSvcs, plugin.TempoTagsSvcs, plugin.ProfileInsertSvcs} {
		for k := range m {
			delete(m, k) // the maps of a process start empty
		}
	}
	p := &plugin.QrynWriterPlugin{}
	p.ServicesObject = plugin.ServicesObject{
		DatabaseNodeMap: nmap,
		Dbv3Map:         facs,
		MainNode:        nodes[0].Node,
	}
	p.CreateStaticServiceRegistry(*st, &impl.DevInsertServiceFactory{})
	watchdog.Init(nil) // defuse os.Exit on long simulated outages (documented deviation)
	controllerv1.Registry = plugin.ServiceRegistry
	controllerv1.FPCache = plugin.GoCache

	router := mux.NewRouter()
	pro := controllerv1.NewMiddlewareConfig(controllerv1.WithExtraMiddlewareDefault...)
	tempo := controllerv1.NewMiddlewareConfig(controllerv1.WithExtraMiddlewareTempo...)
	p.RegisterRoutes(*st, pro, tempo, router)
	return &System{Router: router, svcs: []service.InsertSvcMap{plugin.TsSvcs, plugin.SplSvcs, plugin.MtrSvcs, plugin.TempoSamplesSvcs, plugin.TempoTagsSvcs, plugin.ProfileInsertSvcs}}
}

// Stop asks every insert service to stop (wakes their run loops so that they can exit).
func (s *System) Stop() {
	for _, m := range s.svcs {
		for _, svc := range m {
			svc.Stop()
		}
	}
}

// NodeNames are the configured ClickHouse nodes of a run: one, or two independent servers (no cluster) between which
// a request chooses with the X-CH-DSN header.
func NodeNames(cfg SysCfg) []string {
	if cfg.Nodes > 1 {
		return []string{"clickhouse-eu-1", "clickhouse-eu-2"}
	}
	return []string{"n1"}
}

var _ = time.Second
