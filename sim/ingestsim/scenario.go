// Package ingestsim runs the real qryn writer (router, middleware, decoders,
// doParse/doPush, retry, promises, insert services, caches, registry) inside a
// synctest bubble on the insert face of the simulated ClickHouse, driven by
// client actors, under the baton scheduler of simrt.
package ingestsim

import (
	"fmt"
	"strings"

	"github.com/metrico/qryn/zz_verif/chfake"
	"pgregory.net/rapid"
)

// SysCfg is the swarm configuration of one run.
type SysCfg struct {
	DBTimerMs     int    `json:"db_timer_ms"`
	DBBulk        int64  `json:"db_bulk"`
	ChSample      int    `json:"channels_sample"`
	ChTS          int    `json:"channels_timeseries"`
	RetryAttempts int    `json:"retry_attempts"`
	RetryTimeoutS int    `json:"retry_timeout_s"`
	WriteTimeoutS int    `json:"write_timeout_s"`
	Cluster       string `json:"cluster"`
	TZOffsetMin   int    `json:"tz_offset_min"`    // process time zone
	StartOffsetS  int64  `json:"start_offset_s"`   // simulated seconds after 2000-01-01T00:00:00Z at which the process starts
	FPType        uint   `json:"fingerprint_type"` // 1 cityhash (default), 0 bernstein
	Nodes         int    `json:"nodes,omitempty"`  // >1: that many independent ClickHouse nodes are configured (no cluster); requests choose with X-CH-DSN
}

// Entry is one log line or metric point of the body model.
type Entry struct {
	AgoMs  int64   `json:"ago_ms"` // timestamp = send time - AgoMs (may be negative: future)
	Metric bool    `json:"metric"`
	Pad    int     `json:"pad"` // extra bytes of line text
	Val    float64 `json:"val"`
	// Snap: 1 = the timestamp is exactly the last UTC midnight before the send time, 2 = one nanosecond (one millisecond
	// where the protocol carries milliseconds) before that midnight
	Snap int `json:"snap,omitempty"`
}

// Stream is a label set with entries.
type Stream struct {
	Labels  [][2]string `json:"labels"`
	Perm    int         `json:"perm"` // rotation of label order on the wire
	Entries []Entry     `json:"entries"`
}

// Op is one client operation.
type Op struct {
	Proto    string   `json:"proto"` // loki-json | loki-json-entries | loki-proto | prom-rw | influx | ...
	Streams  []Stream `json:"streams"`
	ThinkMs  int64    `json:"think_ms"`          // sleep before the request
	Frag     []int    `json:"frag"`              // body fragment sizes (cycled); empty = one piece
	StallUs  int64    `json:"stall_us"`          // sleep between fragments
	Hostile  string   `json:"hostile"`           // "" or hostile recipes joined by '+'
	HostileN int      `json:"hostile_n"`         // parameter of the recipes
	CancelMs int64    `json:"cancel_ms"`         // >0: client goes away after that long
	Restart  bool     `json:"restart"`           // not a request: restart the writer process (crash, durable DB state survives)
	Enc      string   `json:"enc,omitempty"`     // honest transfer encoding of the whole body: "" | gzip | snappy (framed stream format)
	TTLHdr   string   `json:"ttl_hdr,omitempty"` // X-Ttl-Days header value
	Retry    int      `json:"retry,omitempty"`   // the client sends the same body again (up to that many times) when it is answered 5xx
	Async    string   `json:"async,omitempty"`   // X-Async-Insert header: "" | "0" (the sync pipeline) | "1" (the second, "async" pipeline of every insert service)
	DSN      int      `json:"dsn,omitempty"`     // multi-node runs: 1-based index of the node named in X-CH-DSN; 0 = no header
}

// Client is an actor issuing operations sequentially.
type Client struct {
	Ops []Op `json:"ops"`
}

// Scenario is everything that decides a run.
type Scenario struct {
	Cfg        SysCfg         `json:"cfg"`
	Clients    []Client       `json:"clients"`
	Faults     []chfake.Fault `json:"faults"`
	HealMs     int64          `json:"heal_ms"` // faults stop at this simulated instant after start
	Sched      []byte         `json:"sched"`
	ProbeKnown bool           `json:"probe_known,omitempty"` // set only in findings/ replay files: do not exclude input classes of listed known findings
	Preempt    int64          `json:"preempt,omitempty"`     // mean number of visited preemption points (function entries, loop bodies) per forced switch; 0 = goroutines switch only at synchronisation operations
	SchedSeed  uint64         `json:"sched_seed"`            // PRNG seed for scheduler decisions after the tape is used up (0 = lowest id first)
}

var labelNames = []string{"app", "env", "zone", "job", "le", "host-name", "1abc", "a.b", "__ttl_days__"}
var labelVals = []string{"api", "prod", "eu", "x", "7", "", `C:\temp\new`, `^\d+$`, `logs\`, "a\"b", "ü", "with space", "0", "bell\a", "tab\tnl\n", "\u007f\u2028", strings.Repeat("long", 30)}

func genStream(rt *rapid.T, l string, metricOnly, logOnly bool, big bool, pool [][][2]string) Stream {
	s := Stream{}
	if len(pool) > 0 && rapid.IntRange(0, 4).Draw(rt, l+".pool") > 0 {
		// reuse one of the run's label sets: histories of the same series across requests and protocols
		s.Labels = pool[rapid.IntRange(0, len(pool)-1).Draw(rt, l+".pi")]
		return genEntries(rt, l, s, metricOnly, logOnly, big)
	}
	nl := rapid.IntRange(1, 4).Draw(rt, l+".nl")
	seen := map[string]bool{}
	if rapid.IntRange(0, 5).Draw(rt, l+".ttl?") == 0 {
		// the retention control label, first on the wire
		seen["__ttl_days__"] = true
		s.Labels = append(s.Labels, [2]string{"__ttl_days__", rapid.SampledFrom([]string{"7", "30", "x"}).Draw(rt, l+".ttlv")})
	}
	for i := 0; i < nl; i++ {
		n := rapid.SampledFrom(labelNames[:8]).Draw(rt, fmt.Sprintf("%s.ln%d", l, i))
		if seen[n] {
			continue
		}
		seen[n] = true
		s.Labels = append(s.Labels, [2]string{n, rapid.SampledFrom(labelVals).Draw(rt, fmt.Sprintf("%s.lv%d", l, i))})
	}
	return genEntries(rt, l, s, metricOnly, logOnly, big)
}

func genEntries(rt *rapid.T, l string, s Stream, metricOnly, logOnly bool, big bool) Stream {
	s.Perm = rapid.IntRange(0, 3).Draw(rt, l+".perm")
	max := 5
	if big {
		max = 1600
	}
	ne := rapid.IntRange(0, max).Draw(rt, l+".ne")
	if big && rapid.IntRange(0, 2).Draw(rt, l+".edge") == 0 {
		// exactly at, one below and one above the portions a decoder may cut a stream into (1000 points)
		ne = rapid.SampledFrom([]int{999, 1000, 1001, 2000, 2001, 3000}).Draw(rt, l+".nedge")
	}
	for i := 0; i < ne; i++ {
		e := Entry{AgoMs: rapid.SampledFrom([]int64{0, 1, 1000, 59000, 3600000, 86400000, -1000}).Draw(rt, fmt.Sprintf("%s.e%d.ago", l, i))}
		switch {
		case metricOnly:
			e.Metric = true
		case logOnly:
		default:
			e.Metric = rapid.IntRange(0, 3).Draw(rt, fmt.Sprintf("%s.e%d.m", l, i)) == 0
		}
		if big && i == 0 {
			e.Pad = rapid.SampledFrom([]int{0, 0, 700, 1100000}).Draw(rt, fmt.Sprintf("%s.e%d.pad", l, i))
		}
		s.Entries = append(s.Entries, e)
	}
	if rapid.IntRange(0, 5).Draw(rt, l+".midnight") == 0 {
		// the last instant of a day followed by the first instant of the next one, at the end of the stream
		s.Entries = append(s.Entries, Entry{Snap: 2, Metric: metricOnly}, Entry{Snap: 1, Metric: metricOnly})
	}
	return s
}

var protos = []string{"loki-json", "loki-json-entries", "loki-proto", "prom-rw", "influx", "loki-json", "prom-rw", "datadog-logs", "datadog-metrics", "otlp-logs", "zipkin", "zipkin-nd", "otlp-traces", "pprof", "pprof-multipart", "elastic-bulk", "elastic-doc"}

var hostileRecipes = []string{"longline", "truncate", "bitflip", "random", "empty", "badsnappy", "snappy-bomb", "otlp-sparse", "gzip-header", "snappy-header", "bad-encoding", "deepnest", "wrong-content-type", "wrong-route", "short-id", "params", "params"}

// (the recipe "gzip-bomb" exists but is not drawn: it is the input class of a listed known finding and is probed
// deterministically from findings/C05-gzip-body-inflated-without-bound.json)

func genOp(rt *rapid.T, l string, timerMs int, pool [][][2]string, hostile bool) Op {
	op := Op{Proto: rapid.SampledFrom(protos).Draw(rt, l+".proto")}
	// think times are multiples of the flush interval: simulated time costs scheduler steps in
	// proportion to (duration / flush interval), so long histories are only drawn with a slow timer
	f := rapid.SampledFrom([]int64{0, 0, 3, 10, 25, 70, 400}).Draw(rt, l+".think")
	op.ThinkMs = f * int64(timerMs) / 10
	if timerMs >= 1999 && rapid.IntRange(0, 7).Draw(rt, l+".long") == 0 {
		op.ThinkMs = 1800000 + 1013 // past the 30-minute cache reset
	}
	big := rapid.IntRange(0, 19).Draw(rt, l+".big") == 0
	ns := rapid.IntRange(1, 3).Draw(rt, l+".ns")
	for i := 0; i < ns; i++ {
		op.Streams = append(op.Streams, genStream(rt, fmt.Sprintf("%s.s%d", l, i), op.Proto == "prom-rw", op.Proto == "loki-proto", big, pool))
	}
	if rapid.IntRange(0, 3).Draw(rt, l+".fragp") == 0 {
		nf := rapid.IntRange(1, 3).Draw(rt, l+".nf")
		for i := 0; i < nf; i++ {
			op.Frag = append(op.Frag, rapid.SampledFrom([]int{1, 7, 64, 1000, 70000}).Draw(rt, fmt.Sprintf("%s.f%d", l, i)))
		}
		op.StallUs = rapid.SampledFrom([]int64{0, 3, 1500, 25000}).Draw(rt, l+".stall")
	}
	if hostile && rapid.IntRange(0, 1).Draw(rt, l+".hostile") == 0 {
		op.Hostile = rapid.SampledFrom(hostileRecipes).Draw(rt, l+".recipe")
		if rapid.Bool().Draw(rt, l+".two") {
			op.Hostile += "+" + rapid.SampledFrom(hostileRecipes).Draw(rt, l+".recipe2")
		}
		op.HostileN = rapid.IntRange(0, 100000).Draw(rt, l+".hn")
	}
	if op.Hostile == "" {
		op.Enc = rapid.SampledFrom([]string{"", "", "", "gzip", "snappy"}).Draw(rt, l+".enc")
		op.TTLHdr = rapid.SampledFrom([]string{"", "", "7", "0", "abc", "70000"}).Draw(rt, l+".ttlhdr")
	}
	if op.Hostile == "" && rapid.IntRange(0, 2).Draw(rt, l+".retry?") == 0 {
		op.Retry = rapid.IntRange(1, 2).Draw(rt, l+".retry")
	}
	op.DSN = rapid.SampledFrom([]int{1, 2, 1, 2, 1, 2, 0}).Draw(rt, l+".dsn")
	op.Async = rapid.SampledFrom([]string{"", "", "", "0", "1", "1"}).Draw(rt, l+".async")
	return op
}

func genCfg(rt *rapid.T) SysCfg {
	return SysCfg{
		DBTimerMs: rapid.SampledFrom([]int{13, 103, 103, 211, 211, 1999}).Draw(rt, "cfg.timer"),
		DBBulk:    rapid.SampledFrom([]int64{0, 0, 1, 300, 100000000}).Draw(rt, "cfg.bulk"),
		ChSample:  rapid.SampledFrom([]int{1, 1, 2, 3}).Draw(rt, "cfg.chs"),
		ChTS:      rapid.SampledFrom([]int{1, 1, 2}).Draw(rt, "cfg.chts"),
		// 0 = "no attempt at all": retry-go then never calls the insert and reports an (empty) error, every push is refused
		RetryAttempts: rapid.SampledFrom([]int{1, 2, 3, 4, 1, 2, 3, 4, 0}).Draw(rt, "cfg.retry"),
		RetryTimeoutS: rapid.IntRange(0, 2).Draw(rt, "cfg.retrys"),
		WriteTimeoutS: rapid.SampledFrom([]int{1, 3, 30}).Draw(rt, "cfg.wto"),
		Cluster:       rapid.SampledFrom([]string{"", "", "", "c1"}).Draw(rt, "cfg.cluster"),
		TZOffsetMin:   rapid.SampledFrom([]int{0, 0, 840, 330, -300, -720}).Draw(rt, "cfg.tz"),
		StartOffsetS:  rapid.SampledFrom([]int64{0, 37, 43200, 86400 - 30, 86400 - 3600, 5*3600 - 10, 86400 + 12*3600 - 20}).Draw(rt, "cfg.start"),
		FPType:        rapid.SampledFrom([]uint{1, 1, 0}).Draw(rt, "cfg.fp"),
		Nodes:         rapid.SampledFrom([]int{1, 1, 1, 2}).Draw(rt, "cfg.nodes"),
	}
}

func genFaults(rt *rapid.T) []chfake.Fault {
	if rapid.IntRange(0, 3).Draw(rt, "faults.none") == 0 {
		return nil
	}
	n := rapid.IntRange(1, 6).Draw(rt, "faults.n")
	var fs []chfake.Fault
	for i := 0; i < n; i++ {
		k := rapid.SampledFrom([]chfake.FaultKind{chfake.ErrNow, chfake.ErrNow, chfake.ErrAfterDelay, chfake.Stall, chfake.Slow, chfake.ErrAfterApply, chfake.PingErr, chfake.ConnectRefused}).Draw(rt, fmt.Sprintf("f%d.kind", i))
		f := chfake.Fault{Kind: int(k), Nth: rapid.IntRange(0, 12).Draw(rt, fmt.Sprintf("f%d.nth", i)),
			DelayUs: rapid.SampledFrom([]int64{10, 900, 150000, 2500000}).Draw(rt, fmt.Sprintf("f%d.delay", i))}
		switch k {
		case chfake.PingErr:
			f.Op = "ping"
		case chfake.ConnectRefused:
			f.Op = "connect"
		default:
			f.Op = "do"
		}
		fs = append(fs, f)
	}
	return fs
}

// GenScenario draws a whole scenario.
func GenScenario(rt *rapid.T) Scenario {
	return genScenario(rt, false)
}

// GenHostileScenario mixes hostile requests with honest ones (C05).
func GenHostileScenario(rt *rapid.T) Scenario { return genScenario(rt, true) }

func genScenario(rt *rapid.T, hostile bool) Scenario {
	s := Scenario{Cfg: genCfg(rt)}
	var pool [][][2]string
	np := rapid.IntRange(0, 4).Draw(rt, "pool")
	for i := 0; i < np; i++ {
		pool = append(pool, genStream(rt, fmt.Sprintf("pool%d", i), false, true, false, nil).Labels)
	}
	nc := rapid.IntRange(1, 4).Draw(rt, "clients")
	for c := 0; c < nc; c++ {
		cl := Client{}
		no := rapid.IntRange(1, 5).Draw(rt, fmt.Sprintf("c%d.ops", c))
		for o := 0; o < no; o++ {
			cl.Ops = append(cl.Ops, genOp(rt, fmt.Sprintf("c%d.o%d", c, o), s.Cfg.DBTimerMs, pool, hostile))
		}
		s.Clients = append(s.Clients, cl)
	}
	s.Faults = genFaults(rt)
	s.HealMs = rapid.SampledFrom([]int64{50, 1000, 20000}).Draw(rt, "heal")
	s.Sched = rapid.SliceOfN(rapid.Byte(), 0, 64).Draw(rt, "sched")
	s.SchedSeed = rapid.Uint64().Draw(rt, "schedseed")
	s.Preempt = rapid.SampledFrom([]int64{0, 0, 5, 40, 400}).Draw(rt, "preempt")
	return s
}
