// Package readsim runs the real qryn reader (router, controllers, services,
// transpilers, in-process LogQL pipeline, streaming encoders, database/sql) in a
// synctest bubble on the query face of the simulated ClickHouse.
package readsim

import (
	"context"
	"errors"
	"fmt"
	"io"
	"os"
	"sync/atomic"

	"github.com/gorilla/mux"
	"github.com/jmoiron/sqlx"
	clconfig "github.com/metrico/cloki-config"
	"github.com/metrico/cloki-config/config"
	rconfig "github.com/metrico/qryn/reader/config"
	"github.com/metrico/qryn/reader/model"
	apirouterv1 "github.com/metrico/qryn/reader/router"
	"github.com/metrico/qryn/reader/utils/dsn"
	rlogger "github.com/metrico/qryn/reader/utils/logger"
	"github.com/metrico/qryn/zz_verif/sqlfake"
)

type registry struct {
	m        *model.DataDatabasesMap
	failGets int32
}

func (r *registry) GetDB(ctx context.Context) (*model.DataDatabasesMap, error) {
	if atomic.AddInt32(&r.failGets, -1) >= 0 {
		return nil, errors.New("no database session available (injected)")
	}
	return r.m, nil
}
func (r *registry) Run()        {}
func (r *registry) Stop()       {}
func (r *registry) Ping() error { return nil }

var runCounter int64

// System is one reader process.
type System struct {
	Router *mux.Router
	Reg    *registry
	DB     *sqlfake.DB
	Sess   *dsn.StableSqlxDBWrapper
}

func buildReader(db *sqlfake.DB, cluster string) *System {
	rlogger.Logger.SetOutput(io.Discard)
	if os.Getenv("VERIF_DEBUG") == "log" {
		rlogger.Logger.SetOutput(os.Stderr)
	}
	cc := &clconfig.ClokiConfig{Setting: &config.ClokiBaseSettingServer{}}
	cc.Setting.SYSTEM_SETTINGS.MetricsMaxSamples = 5000000
	rconfig.Cloki = cc
	n := atomic.AddInt64(&runCounter, 1)
	open := func() *sqlx.DB { return sqlx.NewDb(db.Open(), "clickhouse") }
	sess := &dsn.StableSqlxDBWrapper{DB: open(), GetDB: open, Name: fmt.Sprintf("sim-%d", n)}
	reg := &registry{m: &model.DataDatabasesMap{Config: &config.ClokiBaseDataBase{Node: "n1", Name: "qryn", ClusterName: cluster}, Session: sess}}
	r := mux.NewRouter()
	apirouterv1.RouteQueryRangeApis(r, reg)
	apirouterv1.RouteSelectLabels(r, reg)
	apirouterv1.RouteSelectPrometheusLabels(r, reg)
	apirouterv1.RoutePrometheusQueryRange(r, reg, false)
	apirouterv1.RouteTempo(r, reg)
	apirouterv1.RouteMiscApis(r)
	apirouterv1.RouteProf(r, reg)
	return &System{Router: r, Reg: reg, DB: db, Sess: sess}
}
