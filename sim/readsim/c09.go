package readsim

import (
	"encoding/json"
	"fmt"
	"hash/fnv"
	"math"
	"os"
	"regexp"
	"runtime/debug"
	"sort"
	"strconv"
	"strings"
	"testing"
	"testing/synctest"
	"time"

	"github.com/metrico/qryn/reader/logql/logql_parser"
	"github.com/metrico/qryn/reader/logql/logql_transpiler_v2"
	"github.com/metrico/qryn/reader/logql/logql_transpiler_v2/clickhouse_planner"
	"github.com/metrico/qryn/zz_verif/simcheck"
	"github.com/metrico/qryn/zz_verif/simrt"
	"github.com/metrico/qryn/zz_verif/sqlfake"
	"pgregory.net/rapid"
)

// ---- structured LogQL program (rendered to text for the system, evaluated directly by the reference)

// Stage is one pipeline stage that runs in-process (after the split point).
type Stage struct {
	Kind  string   `json:"kind"` // linefilter | labelfilter | drop | rename | lineformat
	Op    string   `json:"op,omitempty"`
	Label string   `json:"label,omitempty"`
	Str   string   `json:"str,omitempty"`
	Num   float64  `json:"num,omitempty"`
	IsNum bool     `json:"is_num,omitempty"`
	Names []string `json:"names,omitempty"`
	// second operand of an and/or label filter
	Bool   string  `json:"bool,omitempty"` // "" | and | or
	Label2 string  `json:"label2,omitempty"`
	Op2    string  `json:"op2,omitempty"`
	Num2   float64 `json:"num2,omitempty"`
}

// Prog is a LogQL query in structured form.
type Prog struct {
	PreFilter *Stage   `json:"pre_filter,omitempty"` // line filter before the split point (runs in ClickHouse)
	Parser    string   `json:"parser"`               // json | logfmt | line_format: the stage that forces the split
	Stages    []Stage  `json:"stages"`
	Unwrap    string   `json:"unwrap,omitempty"`
	RangeFn   string   `json:"range_fn,omitempty"`
	RangeS    int      `json:"range_s,omitempty"`
	RangeMs   int      `json:"range_ms,omitempty"` // when set: the range in milliseconds (ranges need not be whole seconds)
	Agg       string   `json:"agg,omitempty"`
	Grouping  string   `json:"grouping,omitempty"` // "" | by | without
	Labels    []string `json:"labels,omitempty"`
	RangeBy   []string `json:"range_by,omitempty"` // grouping of the range aggregation itself (unwrap functions)
	Cmp       string   `json:"cmp,omitempty"`
	CmpVal    float64  `json:"cmp_val,omitempty"`
}

// C09Scenario: a program, a data set, request parameters and a schedule.
type C09Scenario struct {
	Prog      Prog    `json:"prog"`
	Format    string  `json:"format"` // json | logfmt data set
	Series    int     `json:"series"`
	Lines     [][]int `json:"lines"` // per series: indexes into the line catalogue
	GapMs     []int   `json:"gap_ms"`
	Repeat    int     `json:"repeat,omitempty"` // the lines of every series are served this many times over (thousands of rows)
	Limit     int     `json:"limit"`
	Forward   bool    `json:"forward"`
	StepS     int     `json:"step_s"`
	RowLatUs  int64   `json:"row_latency_us"`
	Sched     []byte  `json:"sched"`
	SchedSeed uint64  `json:"sched_seed"`
	Preempt   int64   `json:"preempt,omitempty"` // see simrt.SetPreempt
	// EndS: the request ends that many seconds after its start (0 = 120). An end that is not a multiple of the range puts
	// entries into the last range window the server computes.
	EndS int `json:"end_s,omitempty"`
}

type catLine struct {
	json, logfmt string
}

// the line catalogue: every line has level (sometimes absent), a numeric v, msg, and a nested object in JSON
var catalogue = []catLine{
	{`{"level":"info","v":1.5,"msg":"hello","n":{"a":"x"}}`, `level=info v=1.5 msg=hello n_a=x`},
	{`{"level":"error","v":7,"msg":"a b","n":{"a":"y"}}`, `level=error v=7 msg="a b" n_a=y`},
	{`{"level":"info","v":3,"msg":"zzz"}`, `level=info v=3 msg=zzz`},
	{`{"v":0.25,"msg":"nolevel"}`, `v=0.25 msg=nolevel`},
	{`{"level":"warn","v":10,"msg":"w","arr":[1,2]}`, `level=warn v=10 msg=w`},
	{`{"level":"info","v":2,"msg":"hello again","n":{"a":"x"}}`, `level=info v=2 msg="hello again" n_a=x`},
	// several labels carry one value (also the stream label app="x"): a stage that matches by value must still match by name
	{`{"level":"x","v":4,"msg":"x","n":{"a":"x"}}`, `level=x v=4 msg=x n_a=x`},
	{`{"level":"info","v":6,"msg":"info","n":{"a":"info"}}`, `level=info v=6 msg=info n_a=info`},
	// JSON escape sequences in string values (the logfmt twin stays plain: its quoting rules are another grammar)
	{`{"level":"info","v":8,"msg":"say \"hi\"\\ \u00e9\n","n":{"a":"tab\there\/"}}`, `level=info v=8 msg=plain n_a=y`},
	// lines the json stage cannot parse: not an object, not JSON at all, cut off. Nothing is extracted from them and
	// they stay in the stream (the ClickHouse-side extraction yields nothing for them either)
	{`plain text hello, not json`, `level=info v=9 msg=ok`},
	{`[1,2,3]`, `level=warn v=11 msg=ok2`},
	{`{"level":"info","v":9`, `level=info v=12 msg=ok3`},
	// negative and zero values: sums and averages of a bucket may be negative or zero
	{`{"level":"error","v":-20,"msg":"neg","n":{"a":"y"}}`, `level=error v=-20 msg=neg n_a=y`},
	{`{"level":"info","v":-3.5,"msg":"neg2"}`, `level=info v=-3.5 msg=neg2`},
	{`{"level":"warn","v":0,"msg":"zero"}`, `level=warn v=0 msg=zero`},
}

func (s Stage) render() string {
	switch s.Kind {
	case "linefilter":
		return fmt.Sprintf(` %s %s`, s.Op, strconv.Quote(s.Str))
	case "labelfilter":
		one := func(l, op string, n float64, str string, isNum bool) string {
			if isNum {
				return fmt.Sprintf(`%s %s %s`, l, op, strconv.FormatFloat(n, 'f', -1, 64))
			}
			return fmt.Sprintf(`%s%s%s`, l, op, strconv.Quote(str))
		}
		r := one(s.Label, s.Op, s.Num, s.Str, s.IsNum)
		if s.Bool != "" {
			r += " " + s.Bool + " " + one(s.Label2, s.Op2, s.Num2, "", true)
		}
		return " | " + r
	case "drop":
		if s.Str != "" {
			// drop name="value": the label is removed only where it has that value
			return fmt.Sprintf(" | drop %s=%s", s.Names[0], strconv.Quote(s.Str))
		}
		return " | drop " + strings.Join(s.Names, ", ")
	case "rename", "copy":
		return fmt.Sprintf(" | label_format %s=%s", s.Label, s.Str)
	case "lineformat":
		return fmt.Sprintf(` | line_format %s`, strconv.Quote(s.Str))
	}
	return ""
}

// Render produces the LogQL text.
func (p Prog) Render() string {
	sel := `{app="x"}`
	if p.PreFilter != nil {
		sel += p.PreFilter.render()
	}
	switch p.Parser {
	case "json", "logfmt":
		sel += " | " + p.Parser
	case "line_format":
		sel += ` | line_format "{{._entry}}"`
	}
	for _, s := range p.Stages {
		sel += s.render()
	}
	if p.RangeFn == "" {
		return sel
	}
	if p.Unwrap != "" {
		sel += " | unwrap " + p.Unwrap
	}
	q := fmt.Sprintf("%s(%s[%s])", p.RangeFn, sel, p.rangeText())
	if len(p.RangeBy) > 0 {
		q += fmt.Sprintf(" by (%s)", strings.Join(p.RangeBy, ", "))
	}
	if p.Agg != "" {
		g := ""
		if p.Grouping != "" {
			g = fmt.Sprintf(" %s (%s)", p.Grouping, strings.Join(p.Labels, ", "))
		}
		q = fmt.Sprintf("%s%s (%s)", p.Agg, g, q)
	}
	if p.Cmp != "" {
		q += fmt.Sprintf(" %s %s", p.Cmp, strconv.FormatFloat(p.CmpVal, 'f', -1, 64))
	}
	return q
}

// ---- reference evaluator

type refEntry struct {
	labels map[string]string
	ts     int64
	line   string
	val    float64
	// optional: the line_format template fails for this entry (LogQL keeps the line unchanged and marks the entry, the
	// server drops it): the entry may be absent or present with its line unchanged; what must not happen is that it
	// changes any other entry
	optional bool
}

func cloneLabels(m map[string]string) map[string]string {
	c := make(map[string]string, len(m))
	for k, v := range m {
		c[k] = v
	}
	return c
}

var reSanitize = regexp.MustCompile(`[^a-zA-Z0-9_]`)

func flattenJSON(prefix string, v any, out map[string]string, raw json.RawMessage) {
	switch x := v.(type) {
	case map[string]json.RawMessage:
		for k, r := range x {
			key := k
			if prefix != "" {
				key = prefix + "_" + k
			}
			var sub map[string]json.RawMessage
			var str string
			var arr []json.RawMessage
			switch {
			case json.Unmarshal(r, &sub) == nil && sub != nil:
				flattenJSON(key, sub, out, r)
			case json.Unmarshal(r, &str) == nil:
				out[reSanitize.ReplaceAllString(key, "_")] = str
			case json.Unmarshal(r, &arr) == nil && arr != nil:
				// arrays are skipped
			default:
				out[reSanitize.ReplaceAllString(key, "_")] = strings.TrimSpace(string(r))
			}
		}
	}
}

func parseLogfmt(line string, out map[string]string) {
	i := 0
	for i < len(line) {
		for i < len(line) && line[i] == ' ' {
			i++
		}
		j := i
		for j < len(line) && line[j] != '=' && line[j] != ' ' {
			j++
		}
		key := line[i:j]
		if j >= len(line) || line[j] != '=' {
			i = j
			continue
		}
		j++
		var val string
		if j < len(line) && line[j] == '"' {
			k := j + 1
			for k < len(line) && line[k] != '"' {
				k++
			}
			val = line[j+1 : k]
			j = k + 1
		} else {
			k := j
			for k < len(line) && line[k] != ' ' {
				k++
			}
			val = line[j:k]
			j = k
		}
		if key != "" {
			out[reSanitize.ReplaceAllString(key, "_")] = val
		}
		i = j
	}
}

func (s Stage) keepLine(line string) bool {
	switch s.Op {
	case "|=":
		return strings.Contains(line, s.Str)
	case "!=":
		return !strings.Contains(line, s.Str)
	case "|~":
		return regexp.MustCompile(s.Str).MatchString(line)
	case "!~":
		return !regexp.MustCompile(s.Str).MatchString(line)
	}
	return true
}

func numCmp(op string, a, b float64) bool {
	switch op {
	case ">":
		return a > b
	case ">=":
		return a >= b
	case "<":
		return a < b
	case "<=":
		return a <= b
	case "==":
		return a == b
	case "!=":
		return a != b
	}
	return false
}

func (s Stage) keepLabels(l map[string]string) bool {
	one := func(label, op string, n float64, str string, isNum bool) bool {
		if isNum {
			f, err := strconv.ParseFloat(l[label], 64)
			if l[label] == "" || err != nil {
				return false
			}
			return numCmp(op, f, n)
		}
		if op == "=" {
			return l[label] == str
		}
		return l[label] != str
	}
	r := one(s.Label, s.Op, s.Num, s.Str, s.IsNum)
	switch s.Bool {
	case "and":
		return r && one(s.Label2, s.Op2, s.Num2, "", true)
	case "or":
		return r || one(s.Label2, s.Op2, s.Num2, "", true)
	}
	return r
}

// evalPipeline applies the in-process part of the program to the entries ClickHouse returns.
func (p Prog) evalPipeline(in []refEntry) []refEntry {
	var out []refEntry
	for _, e := range in {
		e.labels = cloneLabels(e.labels)
		switch p.Parser {
		case "json":
			var m map[string]json.RawMessage
			if json.Unmarshal([]byte(e.line), &m) == nil {
				flattenJSON("", m, e.labels, nil)
			}
		case "logfmt":
			parseLogfmt(e.line, e.labels)
		}
		keep := true
		for _, s := range p.Stages {
			switch s.Kind {
			case "linefilter":
				keep = keep && s.keepLine(e.line)
			case "labelfilter":
				keep = keep && s.keepLabels(e.labels)
			case "drop":
				for _, n := range s.Names {
					if s.Str == "" || e.labels[n] == s.Str {
						delete(e.labels, n)
					}
				}
			case "rename":
				// label_format dst=src: dst takes the value of src (LogQL: "rename"); src stays addressable only in Loki >= 2.x docs as removed
				if v, ok := e.labels[s.Str]; ok && v != "" {
					e.labels[s.Label] = v
					delete(e.labels, s.Str)
				}
			case "lineformat":
				if l, ok := renderTpl(s.Str, e.labels, e.line); ok {
					e.line = l
				} else {
					e.optional = true
				}
			case "copy":
				// label_format dst=src as both engines implement it: dst takes the value of src when src has one; src stays
				if v := e.labels[s.Str]; v != "" {
					e.labels[s.Label] = v
				}
			}
			if !keep {
				break
			}
		}
		if !keep {
			continue
		}
		if p.Unwrap != "" {
			// (Loki skips an entry whose label is missing or not a number; both qryn engines count it with the value
			// 0 - toFloat64OrZero on the ClickHouse path, the untouched zero in process - and the reference follows
			// the engines, see DESIGN.md §12 "observed and not judged")
			f, err := strconv.ParseFloat(e.labels[p.Unwrap], 64)
			if err != nil {
				f = 0
			}
			e.val = f
			// (Loki drops the unwrapped label from the series; both qryn engines keep it - the reference
			// follows the engines here, see DESIGN.md §5 C09)
		}
		out = append(out, e)
	}
	return out
}

var reTplVar = regexp.MustCompile(`\{\{ ?(substr (-?[0-9]+) (-?[0-9]+) )?\.([a-zA-Z_]+) ?\}\}`)

// renderTpl evaluates the templates the generator draws: {{.label}}, {{._entry}} and {{ substr a b .label }} with the
// semantics of sprig's substr (a slice expression that panics - a template execution error - when out of range).
func renderTpl(tpl string, labels map[string]string, line string) (res string, ok bool) {
	ok = true
	res = reTplVar.ReplaceAllStringFunc(tpl, func(m string) string {
		g := reTplVar.FindStringSubmatch(m)
		v := labels[g[4]]
		if g[4] == "_entry" {
			v = line
		}
		if g[1] == "" {
			return v
		}
		a, _ := strconv.Atoi(g[2])
		b, _ := strconv.Atoi(g[3])
		switch {
		case a < 0:
			if b < 0 || b > len(v) {
				ok = false
				return ""
			}
			return v[:b]
		case b < 0 || b > len(v):
			if a > len(v) {
				ok = false
				return ""
			}
			return v[a:]
		case a > b:
			ok = false
			return ""
		}
		return v[a:b]
	})
	return res, ok
}

type refPoint struct {
	key    string
	labels map[string]string
	bucket int64 // bucket start ns
	val    float64
	// optional: the value sits within rounding distance of the comparison threshold - summing the same terms in
	// another order decides the comparison the other way, so the point may be present or absent
	optional bool
}

// evalMetric computes, per output series, the value of every non-empty tumbling range bucket.
func (p Prog) evalMetric(entries []refEntry) []refPoint {
	rng := p.rangeNs()
	type acc struct {
		labels                        map[string]string
		n, sum, min, max, first, last float64
		firstTs, lastTs               int64
		bytes                         float64
		has                           bool
	}
	series := map[string]map[int64]*acc{}
	lbls := map[string]map[string]string{}
	for _, e := range entries {
		if len(p.RangeBy) > 0 {
			gl := map[string]string{}
			for _, l := range p.RangeBy {
				if v, ok := e.labels[l]; ok {
					gl[l] = v
				}
			}
			e.labels = gl
		}
		k := labelKey(e.labels)
		if series[k] == nil {
			series[k] = map[int64]*acc{}
			lbls[k] = e.labels
		}
		b := (e.ts / rng) * rng
		a := series[k][b]
		if a == nil {
			a = &acc{min: math.Inf(1), max: math.Inf(-1), firstTs: math.MaxInt64, lastTs: math.MinInt64}
			series[k][b] = a
		}
		a.n++
		a.sum += e.val
		a.bytes += float64(len(e.line))
		a.min = math.Min(a.min, e.val)
		a.max = math.Max(a.max, e.val)
		if e.ts < a.firstTs {
			a.firstTs, a.first = e.ts, e.val
		}
		if e.ts >= a.lastTs {
			a.lastTs, a.last = e.ts, e.val
		}
	}
	var pts []refPoint
	secs := float64(p.rangeNs()) / 1e9
	for k, bs := range series {
		for b, a := range bs {
			var v float64
			switch p.RangeFn {
			case "count_over_time":
				v = a.n
			case "rate":
				if p.Unwrap != "" {
					v = a.sum / secs
				} else {
					v = a.n / secs
				}
			case "bytes_over_time":
				v = a.bytes
			case "bytes_rate":
				v = a.bytes / secs
			case "sum_over_time":
				v = a.sum
			case "avg_over_time":
				v = a.sum / a.n
			case "min_over_time":
				v = a.min
			case "max_over_time":
				v = a.max
			case "first_over_time":
				v = a.first
			case "last_over_time":
				v = a.last
			}
			pts = append(pts, refPoint{key: k, labels: lbls[k], bucket: b, val: v})
		}
	}
	if p.Agg != "" {
		type g struct {
			labels map[string]string
			vals   []float64
		}
		groups := map[string]map[int64]*g{}
		for _, pt := range pts {
			gl := map[string]string{}
			if p.Grouping == "" {
				// (Loki merges all series; both qryn engines aggregate per series when no grouping is
				// written - the reference follows the engines, see DESIGN.md §5 C09)
				gl = cloneLabels(pt.labels)
			}
			switch p.Grouping {
			case "by":
				for _, l := range p.Labels {
					if v, ok := pt.labels[l]; ok {
						gl[l] = v
					}
				}
			case "without":
				gl = cloneLabels(pt.labels)
				for _, l := range p.Labels {
					delete(gl, l)
				}
			}
			k := labelKey(gl)
			if groups[k] == nil {
				groups[k] = map[int64]*g{}
			}
			if groups[k][pt.bucket] == nil {
				groups[k][pt.bucket] = &g{labels: gl}
			}
			groups[k][pt.bucket].vals = append(groups[k][pt.bucket].vals, pt.val)
		}
		pts = nil
		for k, bs := range groups {
			for b, x := range bs {
				var v float64
				switch p.Agg {
				case "sum":
					for _, y := range x.vals {
						v += y
					}
				case "avg":
					for _, y := range x.vals {
						v += y
					}
					v /= float64(len(x.vals))
				case "min":
					v = math.Inf(1)
					for _, y := range x.vals {
						v = math.Min(v, y)
					}
				case "max":
					v = math.Inf(-1)
					for _, y := range x.vals {
						v = math.Max(v, y)
					}
				case "count":
					v = float64(len(x.vals))
				}
				pts = append(pts, refPoint{key: k, labels: x.labels, bucket: b, val: v})
			}
		}
	}
	if p.Cmp != "" {
		var f []refPoint
		for _, pt := range pts {
			// (only where a division is involved: counts and sums of the catalogue's values are exact)
			inexact := p.RangeFn == "rate" || p.RangeFn == "bytes_rate" || p.RangeFn == "avg_over_time" || p.Agg == "avg"
			if inexact && math.Abs(pt.val-p.CmpVal) <= 1e-9*math.Max(1, math.Abs(p.CmpVal)) {
				pt.optional = true
				f = append(f, pt)
				continue
			}
			if numCmp(p.Cmp, pt.val, p.CmpVal) {
				f = append(f, pt)
			}
		}
		pts = f
	}
	return pts
}

// ---- generator

func genC09(rt *rapid.T) C09Scenario {
	s := C09Scenario{Format: rapid.SampledFrom([]string{"json", "logfmt"}).Draw(rt, "format")}
	p := Prog{Parser: s.Format}
	if rapid.IntRange(0, 5).Draw(rt, "lf-split") == 0 {
		p.Parser = "line_format"
	}
	if rapid.IntRange(0, 3).Draw(rt, "pre") == 0 {
		p.PreFilter = &Stage{Kind: "linefilter", Op: rapid.SampledFrom([]string{"|=", "!="}).Draw(rt, "pre.op"), Str: rapid.SampledFrom([]string{"hello", "info", "zzz"}).Draw(rt, "pre.str")}
	}
	ns := rapid.IntRange(0, 3).Draw(rt, "nstages")
	parsed := p.Parser != "line_format"
	for i := 0; i < ns; i++ {
		l := fmt.Sprintf("st%d", i)
		kinds := []string{"linefilter"}
		if parsed {
			kinds = []string{"linefilter", "labelfilter", "labelfilter", "drop", "copy", "lineformat"}
		}
		st := Stage{Kind: rapid.SampledFrom(kinds).Draw(rt, l+".kind")}
		switch st.Kind {
		case "linefilter":
			st.Op = rapid.SampledFrom([]string{"|=", "!=", "|~", "!~"}).Draw(rt, l+".op")
			st.Str = rapid.SampledFrom([]string{"hello", "level", "a b", "w", "v"}).Draw(rt, l+".str")
			if st.Op == "|~" || st.Op == "!~" {
				st.Str = rapid.SampledFrom([]string{"hel+o", "^.*error", "[0-9]+\\.[0-9]"}).Draw(rt, l+".re")
			}
		case "labelfilter":
			if rapid.Bool().Draw(rt, l+".num") {
				st.IsNum, st.Label = true, "v"
				st.Op = rapid.SampledFrom([]string{">", ">=", "<", "<=", "==", "!="}).Draw(rt, l+".nop")
				st.Num = rapid.SampledFrom([]float64{0, 1.5, 2, 3, 7, 100}).Draw(rt, l+".n")
			} else {
				st.Label = rapid.SampledFrom([]string{"level", "msg", "n_a", "series"}).Draw(rt, l+".lbl")
				st.Op = rapid.SampledFrom([]string{"=", "!="}).Draw(rt, l+".sop")
				st.Str = rapid.SampledFrom([]string{"info", "error", "x", "hello", "s0", ""}).Draw(rt, l+".sv")
			}
			if rapid.IntRange(0, 3).Draw(rt, l+".bool") == 0 {
				st.Bool = rapid.SampledFrom([]string{"and", "or"}).Draw(rt, l+".b")
				st.Label2, st.Op2, st.Num2 = "v", rapid.SampledFrom([]string{">", "<=", "=="}).Draw(rt, l+".op2"), rapid.SampledFrom([]float64{1.5, 3, 7}).Draw(rt, l+".n2")
			}
		case "drop":
			st.Names = []string{rapid.SampledFrom([]string{"msg", "n_a", "level", "series"}).Draw(rt, l+".d")}
			if rapid.IntRange(0, 2).Draw(rt, l+".dv?") == 0 {
				st.Str = rapid.SampledFrom([]string{"x", "info", "hello", "s0"}).Draw(rt, l+".dv")
			}
		case "rename", "copy":
			st.Label, st.Str = rapid.SampledFrom([]string{"lvl", "message", "msg"}).Draw(rt, l+".dst"), rapid.SampledFrom([]string{"level", "msg", "nope"}).Draw(rt, l+".src")
		case "lineformat":
			// the last template fails at execution for lines whose level has fewer than four bytes (or none)
			st.Str = rapid.SampledFrom([]string{"{{.level}} {{._entry}}", "{{.series}}:{{.v}}", "{{.msg}} lvl={{ substr 4 -1 .level }}", "{{ substr 0 3 .level }}|{{.msg}}"}).Draw(rt, l+".tpl")
		}
		p.Stages = append(p.Stages, st)
	}
	switch rapid.IntRange(0, 3).Draw(rt, "shape") {
	case 0: // log query
	case 1:
		p.RangeFn = rapid.SampledFrom([]string{"rate", "count_over_time", "bytes_over_time", "bytes_rate"}).Draw(rt, "fn")
	default:
		if parsed {
			p.Unwrap = "v"
			p.RangeFn = rapid.SampledFrom([]string{"sum_over_time", "avg_over_time", "min_over_time", "max_over_time", "first_over_time", "last_over_time", "rate"}).Draw(rt, "ufn")
		} else {
			p.RangeFn = "count_over_time"
		}
	}
	if p.RangeFn != "" {
		p.RangeS = rapid.SampledFrom([]int{1, 5, 60}).Draw(rt, "range")
		if rapid.IntRange(0, 3).Draw(rt, "range.ms?") == 0 {
			p.RangeMs = rapid.SampledFrom([]int{1500, 500, 2500}).Draw(rt, "range.ms")
		}
		if p.Unwrap != "" && rapid.Bool().Draw(rt, "rangeby?") {
			p.RangeBy = []string{rapid.SampledFrom([]string{"level", "series", "app"}).Draw(rt, "rangeby")}
		}
		if rapid.Bool().Draw(rt, "agg?") {
			p.Agg = rapid.SampledFrom([]string{"sum", "avg", "min", "max", "count"}).Draw(rt, "agg")
			p.Grouping = rapid.SampledFrom([]string{"", "by", "without"}).Draw(rt, "grouping")
			if p.Grouping != "" {
				p.Labels = []string{rapid.SampledFrom([]string{"level", "series", "app"}).Draw(rt, "gl")}
			}
		}
		if rapid.IntRange(0, 3).Draw(rt, "cmp?") == 0 {
			p.Cmp = rapid.SampledFrom([]string{">", ">=", "<", "<=", "==", "!="}).Draw(rt, "cmp")
			p.CmpVal = rapid.SampledFrom([]float64{0, 1, 2, 5}).Draw(rt, "cmpv")
		}
	}
	if p.RangeFn != "" {
		// an entry whose template fails may be dropped or kept: not decidable for counts and sums, so metric queries
		// format with templates that cannot fail
		for i := range p.Stages {
			if p.Stages[i].Kind == "lineformat" && strings.Contains(p.Stages[i].Str, "substr 4") {
				p.Stages[i].Str = "{{.level}} {{._entry}}"
			}
		}
	}
	s.Prog = p
	s.Series = rapid.IntRange(1, 3).Draw(rt, "series")
	for i := 0; i < s.Series; i++ {
		n := rapid.SampledFrom([]int{0, 1, 3, 8, 60, 130}).Draw(rt, fmt.Sprintf("s%d.n", i))
		var idx []int
		for j := 0; j < n; j++ {
			idx = append(idx, rapid.IntRange(0, len(catalogue)-1).Draw(rt, fmt.Sprintf("s%d.l%d", i, j)))
		}
		s.Lines = append(s.Lines, idx)
	}
	// (-1: the entries of a series are spread over the whole request window, the last one half a second before its end -
	// the last range window of the request then is not empty)
	s.GapMs = []int{rapid.SampledFrom([]int{1, 250, 1000, 7000, -1, -1}).Draw(rt, "gap")}
	s.EndS = rapid.SampledFrom([]int{0, 0, 118, 97, 59}).Draw(rt, "end")
	if p.RangeFn == "" && rapid.IntRange(0, 11).Draw(rt, "big?") == 0 {
		// thousands of entries behind a log query: stages flush in portions
		s.Repeat, s.GapMs = rapid.SampledFrom([]int{30, 60}).Draw(rt, "repeat"), []int{1}
	}
	// -1: no limit parameter at all; 0: limit=0. The ClickHouse path reads both as "no limit" (MainLimitPlanner)
	s.Limit = rapid.SampledFrom([]int{1000, 1000, 5, 1, 100, 0, -1, 5000}).Draw(rt, "limit")
	s.Forward = rapid.Bool().Draw(rt, "forward")
	s.StepS = rapid.SampledFrom([]int{1, 5, 15}).Draw(rt, "step")
	s.RowLatUs = rapid.SampledFrom([]int64{0, 0, 3, 700}).Draw(rt, "rowlat")
	s.Sched = rapid.SliceOfN(rapid.Byte(), 0, 16).Draw(rt, "sched")
	s.SchedSeed = rapid.Uint64().Draw(rt, "schedseed")
	s.Preempt = rapid.SampledFrom([]int64{0, 0, 5, 40, 400}).Draw(rt, "preempt")
	return s
}

const c09Start = int64(946684800) * 1e9 // 2000-01-01T00:00:00Z
const c09EndDefault = c09Start + 120*1e9

// RunC09 executes a scenario: the query face serves what a correct ClickHouse returns for the part
// of the program before the split point; the response is compared with the reference evaluation.
func RunC09(t *testing.T, s C09Scenario) (ri *simcheck.RunInfo) {
	ri = &simcheck.RunInfo{Faults: map[string]int{}, Probes: map[string]int{}}
	var harnessErr string
	func() {
		defer func() {
			if r := recover(); r != nil {
				msg := fmt.Sprint(r)
				if !strings.Contains(msg, "blocked goroutines remain") && !strings.Contains(msg, "deadlock") {
					harnessErr = msg + "\n" + string(debug.Stack())
				}
			}
		}()
		synctest.Test(t, func(t *testing.T) { c09body(ri, s) })
	}()
	if harnessErr != "" {
		panic("harness: " + harnessErr)
	}
	return ri
}

func c09body(ri *simcheck.RunInfo, s C09Scenario) {
	t0 := time.Now()
	p := s.Prog
	add := func(oracle, sig, detail string) {
		ri.Violations = append(ri.Violations, &simcheck.Violation{Property: "C09", Oracle: oracle, Signature: sig, Detail: detail})
	}
	// data set -> what ClickHouse returns for the prefix (selector + pre-filter), in API order
	var base []refEntry
	gap := int64(s.GapMs[0]) * 1e6
	c09End := c09EndDefault
	if s.EndS > 0 {
		c09End = c09Start + int64(s.EndS)*1e9
	}
	for si := 0; si < s.Series && si < len(s.Lines); si++ {
		lbl := map[string]string{"app": "x", "series": fmt.Sprintf("s%d", si)}
		lines := s.Lines[si]
		for r := 1; r < s.Repeat; r++ {
			lines = append(lines, s.Lines[si]...)
		}
		for j, ci := range lines {
			cl := catalogue[ci%len(catalogue)]
			line := cl.json
			if s.Format == "logfmt" {
				line = cl.logfmt
			}
			ts := c09Start + 1e9 + int64(j)*gap + int64(si)
			if gap < 0 {
				n := int64(len(lines) - 1)
				if n < 1 {
					n = 1
				}
				ts = c09Start + 1e9 + int64(j)*((c09End-c09Start-1500000000)/n) + int64(si)
			}
			if ts >= c09End {
				break
			}
			if p.PreFilter != nil && !p.PreFilter.keepLine(line) {
				continue
			}
			base = append(base, refEntry{labels: lbl, ts: ts, line: line})
		}
	}
	isMetric := p.RangeFn != ""
	// ClickHouse orders a log query by timestamp (newest first unless forward), a query feeding an
	// aggregation by series and time
	sort.SliceStable(base, func(i, j int) bool {
		if isMetric {
			if base[i].labels["series"] != base[j].labels["series"] {
				return base[i].labels["series"] < base[j].labels["series"]
			}
			return base[i].ts < base[j].ts
		}
		if s.Forward {
			return base[i].ts < base[j].ts
		}
		return base[i].ts > base[j].ts
	})
	served := base
	res := sqlfake.Result{RowLatencyUs: s.RowLatUs}
	for _, e := range served {
		fp := uint64(1000)
		for _, c := range e.labels["series"] {
			fp = fp*31 + uint64(c)
		}
		res.Explicit = append(res.Explicit, sqlfake.Row{Fp: fp, Labels: e.labels, TsNs: e.ts, Line: e.line})
	}

	// the comparison is only meaningful when the server really splits the program where the harness
	// assumes (the rows served stand for the ClickHouse-side prefix): ask the tree's own split rule
	if script, err := logql_parser.Parse(p.Render()); err != nil {
		ri.Probes["query-not-parsed"]++
		return
	} else {
		wantBp := 0
		if p.PreFilter != nil {
			wantBp = 1
		}
		if bp, err := logql_transpiler_v2.GetBreakpoint(script); err != nil || bp != wantBp || clickhouse_planner.AnalyzeMetrics15sShortcut(script) {
			ri.Probes["split-point-differs-from-harness-assumption"]++
			return
		}
	}
	sim := simrt.New(s.Sched, s.SchedSeed)
	sim.SetPreempt(s.Preempt, s.SchedSeed)
	sim.MaxSpin = maxSpin
	defer sim.Close()
	st := &runState{s: Scenario{}}
	st.db = sqlfake.NewDB(nil)
	var sys *System
	built := make(chan struct{})
	sim.Spawn("system", func() { sys = buildReader(st.db, ""); close(built) })
	select {
	case <-built:
	case <-sim.Killed():
		return
	}
	req := Req{Kind: "query_range", Query: p.Render(), Start: fmt.Sprint(c09Start), End: fmt.Sprint(c09End), Step: fmt.Sprint(s.StepS), Limit: limitParam(s.Limit), Result: res}
	if s.Forward {
		req.Direction = "forward"
	}
	done := make(chan struct{})
	sim.Spawn("client", func() { defer close(done); st.client(sys, 0, []Req{req}) })
	select {
	case <-done:
	case <-time.After(10 * time.Minute):
	case <-sim.Killed():
	}
	sim.Kill()
	sim.WaitStopped()
	synctest.Wait()
	h := fnv.New64a()
	fmt.Fprintf(h, "%s|%x|%d", req.Query, sim.TraceHash(), len(served))
	ri.Hash = h.Sum64()
	ri.Steps = sim.Steps
	if sim.Preempts > 0 {
		ri.Faults["sched-preempt-between-sync-ops"] += int(sim.Preempts)
	}
	if sim.Resumes > 0 {
		ri.Probes["woke-outside-the-baton-and-requeued"] += int(sim.Resumes)
	}
	ri.SimNanos = int64(time.Since(t0))
	ri.NonTrivial = len(served) > 0
	ri.Probes["served-rows"] += len(served)
	if len(served) > 100 {
		ri.Probes["more-than-one-scan-batch"]++
	}
	if len(st.reqs) == 0 || !st.reqs[0].Returned {
		add("no-response", "in-process query did not return: "+classOfProg(p), fmt.Sprintf("query %q", req.Query))
		return
	}
	r := st.reqs[0]
	ri.Sample = map[string]any{"query": req.Query, "rows_served": len(served), "status": r.Status, "limit": s.Limit, "forward": s.Forward, "step_s": s.StepS}
	if len(sim.Crashes) > 0 {
		add("process-crash", "in-process stage panicked: "+classOfProg(p), fmt.Sprintf("query %q: %s", req.Query, sim.Crashes[0].Value))
		return
	}
	if r.Status != 200 {
		// a query form the server rejects is a limitation, not a wrong result: counted, not judged
		ri.Probes["query-rejected"]++
		return
	}
	if os.Getenv("VERIF_DEBUG") != "" {
		fmt.Printf("DBGC09 query=%q served=%d body=%.1500s\n", req.Query, len(served), r.Body.String())
		for _, st := range r.Stmts {
			tail := st.SQL
			if len(tail) > 260 {
				tail = tail[len(tail)-260:]
			}
			fmt.Printf("DBGC09   stmt class=%s cols=%v served=%d err=%q sql=...%s\n", st.Class, st.Cols, st.Served, st.Err, tail)
		}
	}
	var doc struct {
		Status string `json:"status"`
		Data   struct {
			ResultType string `json:"resultType"`
			Result     []struct {
				Stream map[string]string `json:"stream"`
				Metric map[string]string `json:"metric"`
				Values [][]any           `json:"values"`
			} `json:"result"`
		} `json:"data"`
	}
	if err := json.Unmarshal(r.Body.Bytes(), &doc); err != nil {
		add("bad-document", "response of an in-process query is not the documented JSON: "+classOfProg(p), fmt.Sprintf("query %q: %v body %.300q", req.Query, err, r.Body.String()))
		return
	}
	expEntries := p.evalPipeline(served)
	ri.Probes["entries-after-pipeline"] += len(expEntries)
	if !isMetric {
		want := map[string]int{}
		nOpt := 0
		for _, e := range expEntries {
			want[fmt.Sprintf("%s|%d|%s", labelKey(e.labels), e.ts, e.line)]++
			if e.optional {
				nOpt++
			}
		}
		got := map[string]int{}
		ngot := 0
		objs := map[string]int{}
		for _, o := range doc.Data.Result {
			objs[labelKey(o.Stream)]++
			for _, v := range o.Values {
				if len(v) != 2 {
					continue
				}
				got[fmt.Sprintf("%s|%v|%v", labelKey(o.Stream), v[0], v[1])]++
				ngot++
			}
		}
		for k, n := range objs {
			if n > 1 {
				// one object per stream is C15's clause (checked there, also for results of thousands of entries,
				// which the response optimizer hands over in portions); C09 judges entries and values
				ri.Probes["stream-in-several-objects"]++
				_ = k
				_ = n
				break
			}
		}
		for k, n := range got {
			if want[k] < n {
				add("wrong-entry", "in-process pipeline returns an entry the LogQL definition does not: "+classOfProg(p),
					fmt.Sprintf("query %q: returned %.200q x%d, reference has it x%d; reference entries %d, returned %d", req.Query, k, n, want[k], len(expEntries), ngot))
				return
			}
		}
		wantN, wantMin := len(expEntries), len(expEntries)-nOpt
		if s.Limit > 0 && s.Limit < wantN {
			wantN = s.Limit
		}
		if s.Limit > 0 && s.Limit < wantMin {
			wantMin = s.Limit
		}
		if ngot > wantN || ngot < wantMin {
			add("entries-missing", "in-process pipeline loses or limits entries differently from the definition: "+classOfProg(p),
				fmt.Sprintf("query %q limit=%d: returned %d entries, reference says %d of %d", req.Query, s.Limit, ngot, wantN, len(expEntries)))
		}
		return
	}
	// metric: robust comparison against tumbling buckets
	ref := p.evalMetric(expEntries)
	rng := p.rangeNs()
	refBy := map[string]map[int64]float64{}
	optBy := map[string]map[int64]bool{}
	for _, pt := range ref {
		if refBy[pt.key] == nil {
			refBy[pt.key] = map[int64]float64{}
		}
		refBy[pt.key][pt.bucket] = pt.val
		if pt.optional {
			if optBy[pt.key] == nil {
				optBy[pt.key] = map[int64]bool{}
			}
			optBy[pt.key][pt.bucket] = true
		}
	}
	covered := map[string]map[int64]bool{}
	seenSeries := map[string]int{}
	for _, o := range doc.Data.Result {
		k := labelKey(o.Metric)
		seenSeries[k]++
		if seenSeries[k] > 1 {
			add("series-split", "one label set is returned as several series: "+classOfProg(p), fmt.Sprintf("query %q: label set %s appears %d times", req.Query, k, seenSeries[k]))
			return
		}
		for _, v := range o.Values {
			if len(v) != 2 {
				continue
			}
			tsF, _ := v[0].(float64)
			valS, _ := v[1].(string)
			val, err := strconv.ParseFloat(valS, 64)
			if err != nil {
				add("bad-document", "matrix value is not a number: "+classOfProg(p), fmt.Sprintf("query %q value %v", req.Query, v))
				return
			}
			tns := int64(math.Round(tsF * 1e9))
			// an output point at step position t stands for the range buckets that overlap [t, t+step)
			// (plus the bucket that ends exactly at t): it must carry the value of one of them
			step := int64(s.StepS) * 1e9
			var cands []int64
			for bb := (tns/rng)*rng - rng; bb < tns+step; bb += rng {
				if _, ok := refBy[k][bb]; ok && bb+rng >= tns {
					cands = append(cands, bb)
				}
			}
			b := int64(-1)
			if covered[k] == nil {
				covered[k] = map[int64]bool{}
			}
			for _, bb := range cands {
				want := refBy[k][bb]
				if math.Abs(want-val) <= 1e-6*math.Max(1, math.Abs(want)) {
					b = bb
					covered[k][bb] = true
				}
			}
			if len(cands) == 0 {
				add("wrong-value", "in-process aggregation emits a point where the definition has none: "+classOfProg(p),
					fmt.Sprintf("query %q step=%ds: series %s t=%v value=%v; reference buckets of that series: %v (all: %d series)", req.Query, s.StepS, k, tsF, val, refBy[k], len(refBy)))
				return
			}
			if b < 0 {
				add("wrong-value", "in-process aggregation computes another value than the definition: "+classOfProg(p),
					fmt.Sprintf("query %q step=%ds: series %s t=%v: got %v, reference value(s) of the overlapping bucket(s) %v: %v", req.Query, s.StepS, k, tsF, val, cands, refVals(refBy[k], cands)))
				return
			}
			if covered[k] == nil {
				covered[k] = map[int64]bool{}
			}
			covered[k][b] = true
		}
	}
	if int64(s.StepS)*1e9 <= rng {
		for k, bs := range refBy {
			for b, v := range bs {
				if math.Abs(v) < 1e-9 {
					// zero values are dropped from matrix responses; a sum of values that cancel out is exactly zero in one
					// order of summation and 5e-17 in another
					continue
				}
				if b+rng <= c09Start || b >= c09End {
					continue
				}
				if !covered[k][b] && !optBy[k][b] {
					add("bucket-missing", "a non-empty range bucket of the definition is absent from the in-process result: "+classOfProg(p),
						fmt.Sprintf("query %q: series %s bucket starting %d (value %v) has no output point; returned series: %v", req.Query, k, b/1e9, v, keysOf(seenSeries)))
					return
				}
			}
		}
	}
}

func refVals(m map[int64]float64, bs []int64) []float64 {
	var r []float64
	for _, b := range bs {
		r = append(r, m[b])
	}
	return r
}

func keysOf(m map[string]int) []string {
	var r []string
	for k := range m {
		r = append(r, k)
	}
	sort.Strings(r)
	return r
}

func classOfProg(p Prog) string {
	parts := []string{p.Parser}
	seen := map[string]bool{}
	for _, s := range p.Stages {
		k := s.Kind
		if s.Kind == "labelfilter" {
			if s.IsNum {
				k += "-num"
			} else {
				k += "-str"
			}
			if s.Bool != "" {
				k += "-" + s.Bool
			}
		}
		if !seen[k] {
			seen[k] = true
			parts = append(parts, k)
		}
	}
	if p.Unwrap != "" {
		parts = append(parts, "unwrap")
	}
	if p.RangeFn != "" {
		parts = append(parts, p.RangeFn)
	}
	if len(p.RangeBy) > 0 {
		parts = append(parts, "by")
	}
	if p.Agg != "" {
		parts = append(parts, p.Agg+" "+p.Grouping)
	}
	if p.Cmp != "" {
		parts = append(parts, "cmp")
	}
	return "[" + strings.Join(parts, " | ") + "]"
}

func limitParam(l int) string {
	if l < 0 {
		return ""
	}
	return fmt.Sprint(l)
}

func (p Prog) rangeNs() int64 {
	if p.RangeMs > 0 {
		return int64(p.RangeMs) * 1e6
	}
	return int64(p.RangeS) * 1e9
}

func (p Prog) rangeText() string {
	if p.RangeMs > 0 {
		return fmt.Sprintf("%dms", p.RangeMs)
	}
	return fmt.Sprintf("%ds", p.RangeS)
}
