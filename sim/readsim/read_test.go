package readsim

import (
	"fmt"
	"os"
	"pgregory.net/rapid"
	"testing"

	"github.com/metrico/qryn/zz_verif/simcheck"
)

// TestRead explores the reader simulation for VERIF_PROPERTY (C12: with faults; C15: fault-free documents).
func TestRead(t *testing.T) {
	prop := os.Getenv("VERIF_PROPERTY")
	if prop == "" {
		prop = "C12"
	}
	c := simcheck.NewCollector("read")
	defer c.Flush()
	defer func() {
		if r := recover(); r != nil {
			c.HarnessError(fmt.Sprint(r))
			t.Errorf("HARNESS-ERROR %v", r)
		}
	}()
	simcheck.Explore(t, c, prop, GenScenario(prop == "C12"), func(s Scenario) *simcheck.RunInfo { return RunRead(t, s) })
}

// TestC14 explores translation determinism and plan re-execution.
func TestC14(t *testing.T) {
	c := simcheck.NewCollector("read-c14")
	defer c.Flush()
	defer func() {
		if r := recover(); r != nil {
			c.HarnessError(fmt.Sprint(r))
			t.Errorf("HARNESS-ERROR %v", r)
		}
	}()
	simcheck.Explore(t, c, "C14", func(rt *rapid.T) C14Scenario { s := genC14(rt); s.DayBase = NextDayBase(); return s }, func(s C14Scenario) *simcheck.RunInfo { return RunC14(t, s) })
}

// TestC09 compares the in-process LogQL pipeline with the reference evaluator.
func TestC09(t *testing.T) {
	c := simcheck.NewCollector("read-c09")
	defer c.Flush()
	defer func() {
		if r := recover(); r != nil {
			c.HarnessError(fmt.Sprint(r))
			t.Errorf("HARNESS-ERROR %v", r)
		}
	}()
	simcheck.Explore(t, c, "C09", genC09, func(s C09Scenario) *simcheck.RunInfo { return RunC09(t, s) })
}
