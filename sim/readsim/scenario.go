package readsim

import (
	"fmt"
	"net/url"
	"strconv"
	"strings"

	"github.com/metrico/qryn/zz_verif/sqlfake"
	"pgregory.net/rapid"
)

// Req is one read request.
type Req struct {
	Kind      string         `json:"kind"`
	Query     string         `json:"query"`
	Start     string         `json:"start"`
	End       string         `json:"end"`
	Step      string         `json:"step"`
	Limit     string         `json:"limit"`
	Direction string         `json:"direction"`
	Time      string         `json:"time"`
	Name      string         `json:"name"` // label / tag / trace id path element
	Result    sqlfake.Result `json:"result"`
	CancelUs  int64          `json:"cancel_us"`           // >0: the client goes away after that long
	WriteUs   int64          `json:"write_us"`            // delay of the client per response chunk
	ThinkUs   int64          `json:"think_us"`            // before the request
	NoDB      bool           `json:"no_db"`               // registry has no session for this request
	TailMs    int64          `json:"tail_ms"`             // Tail: how long the consumer reads before closing
	Mutated   bool           `json:"mutated,omitempty"`   // the query text went through mutate(): it may be invalid
	ProfType  int            `json:"prof_type,omitempty"` // index into ProfTypes (profile queries)
	Faulty    bool           `json:"faulty,omitempty"`    // drawn with faults enabled: parameters, stored shapes and the database may be hostile
}

// Scenario of the reader simulation.
type Scenario struct {
	Cluster   string  `json:"cluster"`
	Clients   [][]Req `json:"clients"`
	ConnErrs  int     `json:"connect_errors"`
	Sched     []byte  `json:"sched"`
	SchedSeed uint64  `json:"sched_seed"`
	Preempt   int64   `json:"preempt,omitempty"` // see simrt.SetPreempt
}

// ProfTypes are the profile type ids of the Pyroscope requests.
var ProfTypes = []string{"process_cpu:cpu:nanoseconds:cpu:nanoseconds", "memory:alloc_space:bytes:space:bytes"}

// URL renders the request.
func (r Req) URL() (method, path string) {
	q := url.Values{}
	set := func(k, v string) {
		if v != "" {
			q.Set(k, v)
		}
	}
	switch r.Kind {
	case "query_range":
		set("query", r.Query)
		set("start", r.Start)
		set("end", r.End)
		set("step", r.Step)
		set("limit", r.Limit)
		set("direction", r.Direction)
		return "GET", "/loki/api/v1/query_range?" + q.Encode()
	case "query":
		set("query", r.Query)
		set("time", r.Time)
		set("limit", r.Limit)
		set("step", r.Step)
		return "GET", "/loki/api/v1/query?" + q.Encode()
	case "labels":
		set("start", r.Start)
		set("end", r.End)
		return "GET", "/loki/api/v1/labels?" + q.Encode()
	case "label_values":
		set("start", r.Start)
		set("end", r.End)
		set("query", r.Query)
		return "GET", "/loki/api/v1/label/" + url.PathEscape(r.Name) + "/values?" + q.Encode()
	case "series":
		set("start", r.Start)
		set("end", r.End)
		set("match[]", r.Query)
		return "GET", "/loki/api/v1/series?" + q.Encode()
	case "prom_range":
		set("query", r.Query)
		set("start", r.Start)
		set("end", r.End)
		set("step", r.Step)
		return "GET", "/api/v1/query_range?" + q.Encode()
	case "prom_instant":
		set("query", r.Query)
		set("time", r.Time)
		return "GET", "/api/v1/query?" + q.Encode()
	case "prom_labels":
		set("start", r.Start)
		set("end", r.End)
		set("match[]", r.Query)
		return "GET", "/api/v1/labels?" + q.Encode()
	case "prom_label_values":
		set("start", r.Start)
		set("end", r.End)
		set("match[]", r.Query)
		return "GET", "/api/v1/label/" + url.PathEscape(r.Name) + "/values?" + q.Encode()
	case "prom_series":
		set("start", r.Start)
		set("end", r.End)
		set("match[]", r.Query)
		return "GET", "/api/v1/series?" + q.Encode()
	case "trace":
		set("start", r.Start)
		set("end", r.End)
		return "GET", "/api/traces/" + url.PathEscape(r.Name) + "?" + q.Encode()
	case "trace_json":
		return "GET", "/api/traces/" + url.PathEscape(r.Name) + "/json"
	case "search":
		set("q", r.Query)
		set("start", r.Start)
		set("end", r.End)
		set("limit", r.Limit)
		set("tags", r.Name)
		set("minDuration", r.Step)
		set("maxDuration", r.Time)
		return "GET", "/api/search?" + q.Encode()
	case "tags":
		return "GET", "/api/search/tags?" + q.Encode()
	case "tags_v2":
		set("q", r.Query)
		set("start", r.Start)
		set("end", r.End)
		return "GET", "/api/v2/search/tags?" + q.Encode()
	case "tag_values":
		return "GET", "/api/search/tag/" + url.PathEscape(r.Name) + "/values"
	case "tag_values_v2":
		set("q", r.Query)
		set("start", r.Start)
		set("end", r.End)
		return "GET", "/api/v2/search/tag/" + url.PathEscape(r.Name) + "/values?" + q.Encode()
	case "prof_types":
		return "POST", "/querier.v1.QuerierService/ProfileTypes"
	case "prof_label_names":
		return "POST", "/querier.v1.QuerierService/LabelNames"
	case "prof_label_values":
		return "POST", "/querier.v1.QuerierService/LabelValues"
	case "prof_select_series":
		return "POST", "/querier.v1.QuerierService/SelectSeries"
	case "prof_merge":
		return "POST", "/querier.v1.QuerierService/SelectMergeStacktraces"
	case "prof_series":
		return "POST", "/querier.v1.QuerierService/Series"
	case "prof_merge_profiles":
		return "POST", "/querier.v1.QuerierService/SelectMergeProfile"
	case "prof_stats":
		return "POST", "/types.v1.ProfileStatsService/GetProfileStats" // falls through to the router's answer when the route differs
	case "render_diff":
		pq := r.Query
		if strings.HasPrefix(pq, "{") {
			pq = ProfTypes[r.ProfType%len(ProfTypes)] + pq
		}
		set("leftQuery", pq)
		set("rightQuery", pq)
		// the endpoint takes milliseconds
		ms := func(v string) string {
			if ns, ok := reqTime(v); ok && len(v) >= 16 {
				return strconv.FormatInt(ns/1000000, 10)
			}
			return v
		}
		set("leftFrom", ms(r.Start))
		set("leftUntil", ms(r.End))
		set("rightFrom", ms(r.Start))
		set("rightUntil", ms(r.End))
		return "GET", "/pyroscope/render-diff?" + q.Encode()
	}
	return "GET", "/api/v1/status/buildinfo"
}

var selectors = []string{`{app="x"}`, `{app="x", env=~"p.*"}`, `{app!="y", series=~"s[0-9]+"}`, `{job="a b", x!~"q"}`}
var lineFilters = []string{``, ` |= "line"`, ` != "zzz"`, ` |~ "s[0-9] i"`, ` !~ "nomatch"`, ` |= "a\\.b" |~ "a\\.b"`}
var stages = []string{``, ` | json`, ` | logfmt`, ` | json a="b.c", lvl="level"`, ` | line_format "{{.app}} {{.series}}"`, ` | label_format app2=app`, ` | app="x"`, ` | v > 5`, ` | drop app`,
	` | json | level="info"`, ` | logfmt | line_format "{{.msg}}"`, ` | regexp "(?P<first>\\w+)"`, ` | json | unwrap v`, ` | logfmt | v >= 2.5 and level!="x"`, ` | json lvl="level" | lvl="error"`, ` | regexp "(?P<lvl>\\w+)" | lvl="info"`, ` | json lvl="level", n="v" | n > 2 | lvl!="x"`, ` | json | drop level | line_format "{{.v}}"`,
	// label filters on both sides of a parser (two fingerprint sub-selects in one plan)
	` | app="x" | json lvl="level" | lvl="error"`, ` | series=~"s.*" | logfmt | level="info" | drop level`}
var rangeFns = []string{"rate", "count_over_time", "bytes_rate", "bytes_over_time", "absent_over_time"}
var unwrapFns = []string{"sum_over_time", "avg_over_time", "min_over_time", "max_over_time", "first_over_time", "last_over_time", "rate"}
var aggs = []string{"sum", "avg", "min", "max", "count"}
var ranges = []string{"1s", "5s", "1m", "5m", "0s", "1h"}

func genLogQL(rt *rapid.T, l string) string {
	sel := rapid.SampledFrom(selectors).Draw(rt, l+".sel") + rapid.SampledFrom(lineFilters).Draw(rt, l+".lf") + rapid.SampledFrom(stages).Draw(rt, l+".st")
	switch rapid.IntRange(0, 5).Draw(rt, l+".shape") {
	case 0, 1:
		return sel
	case 2:
		return fmt.Sprintf("%s(%s[%s])", rapid.SampledFrom(rangeFns).Draw(rt, l+".fn"), sel, rapid.SampledFrom(ranges).Draw(rt, l+".rg"))
	case 3:
		inner := fmt.Sprintf("%s(%s[%s])", rapid.SampledFrom(rangeFns).Draw(rt, l+".fn"), sel, rapid.SampledFrom(ranges).Draw(rt, l+".rg"))
		by := rapid.SampledFrom([]string{"", " by (app)", " without (series)", " by (app, level)"}).Draw(rt, l+".by")
		q := fmt.Sprintf("%s%s (%s)", rapid.SampledFrom(aggs).Draw(rt, l+".agg"), by, inner)
		return q + rapid.SampledFrom([]string{"", " > 1", " <= 0.5", " == 2"}).Draw(rt, l+".cmp")
	case 4:
		u := rapid.SampledFrom(selectors).Draw(rt, l+".sel2") + rapid.SampledFrom([]string{" | json | unwrap v", " | logfmt | unwrap v", " | unwrap v", " | json | unwrap duration(v)"}).Draw(rt, l+".uw")
		q := fmt.Sprintf("%s(%s[%s])", rapid.SampledFrom(unwrapFns).Draw(rt, l+".ufn"), u, rapid.SampledFrom(ranges).Draw(rt, l+".rg"))
		if rapid.Bool().Draw(rt, l+".uby") {
			q += " by (app)"
		}
		return q
	default:
		inner := fmt.Sprintf("rate(%s[%s])", sel, rapid.SampledFrom(ranges).Draw(rt, l+".rg"))
		return fmt.Sprintf(rapid.SampledFrom([]string{"topk(2, %s)", "bottomk(1, %s)", "sum(%s) by (app)", "quantile_over_time(0.5, %s)"}).Draw(rt, l+".tk"), inner)
	}
}

func mutate(rt *rapid.T, l, q string) string {
	switch rapid.IntRange(0, 7).Draw(rt, l+".mut") {
	case 0:
		if len(q) > 1 {
			return q[:rapid.IntRange(0, len(q)-1).Draw(rt, l+".cut")]
		}
	case 1:
		i := rapid.IntRange(0, len(q)).Draw(rt, l+".ins")
		return q[:i] + rapid.SampledFrom([]string{"\"", "{", "}", "(", ")", "|", "\\", "\x00", "[", "'", "`", "=~", "%", "é"}).Draw(rt, l+".ch") + q[i:]
	case 2:
		return string(rapid.SliceOfN(rapid.Byte(), 0, 40).Draw(rt, l+".rnd"))
	case 3:
		return strings.Repeat("(", rapid.IntRange(1, 3000).Draw(rt, l+".deep")) + q
	case 4:
		return ""
	}
	return q
}

var numVals = []string{"", "0", "1", "-1", "946684800", "946684860", "946684800000000000", "946684860000000000", "1e3", "9223372036854775807", "-9223372036854775808", "abc", "0.5", "1.5e300", "NaN", "946684700"}
var stepVals = []string{"", "0", "1", "15", "0.1", "-5", "1m", "5s", "1h", "abc", "9999999999", "1e-9"}
var limitVals = []string{"", "0", "1", "10", "100", "1000", "-1", "abc", "99999999999"}

var promQueries = []string{`up`, `rate(http_requests_total{job="a"}[5m])`, `sum by (job) (rate(x[1m]))`, `x{a=~"b.*"} > 2`, `histogram_quantile(0.9, sum(rate(b_bucket[5m])) by (le))`, `{__name__=~".+"}`, `1+1`, `x offset 5m`, `avg_over_time(x[10m:1m])`, `label_replace(up, "a", "$1", "b", "(.*)")`, `time()`, `vector(1)`, `vector(time()) * 2`}
var traceQLs = []string{`{}`, `{.a="b"}`, `{span.http.status=200 && resource.service.name="x"}`, `{.a=~"b.*" || name="op"}`, `{duration>1s} | count() > 2`, `{.a="b"} && {.c="d"}`, `{.a="b"} || {.c!="d"} | avg(duration) > 1ms`, `{.x > 5.5}`}
var kinds = []string{"query_range", "query_range", "query_range", "query", "labels", "label_values", "series", "prom_range", "prom_instant", "prom_labels", "prom_label_values", "prom_series",
	"trace", "trace_json", "search", "tags", "tags_v2", "tag_values", "tag_values_v2", "prof_types", "prof_label_names", "prof_label_values", "prof_select_series", "prof_merge", "prof_series", "prof_merge_profiles", "render_diff", "tail"}

func genResult(rt *rapid.T, l string, faulty bool) sqlfake.Result {
	r := sqlfake.Result{
		Series: rapid.SampledFrom([]int{0, 1, 1, 2, 3, 7}).Draw(rt, l+".series"),
		// (2000 per series: results of thousands of entries, handed through the pipeline in portions)
		RowsPer:     rapid.SampledFrom([]int{0, 1, 2, 3, 50, 99, 100, 101, 250, 0, 1, 2, 3, 50, 99, 100, 101, 250, 0, 1, 2, 3, 50, 99, 100, 101, 250, 2000}).Draw(rt, l+".rows"),
		FpZeroFirst: rapid.IntRange(0, 5).Draw(rt, l+".fp0") == 0,
		Interleave:  rapid.IntRange(0, 5).Draw(rt, l+".il") == 0,
		BaseNs:      946684800000000000 + int64(rapid.IntRange(-120, 120).Draw(rt, l+".base"))*1e9,
		StepNs:      rapid.SampledFrom([]int64{1, 1000000, 1e9, 15e9}).Draw(rt, l+".stepns"),
		Desc:        rapid.Bool().Draw(rt, l+".desc"),
		CtrlBytes:   rapid.IntRange(0, 2).Draw(rt, l+".ctrl") == 0,
	}
	switch rapid.IntRange(0, 4).Draw(rt, l+".lines") {
	case 0:
		r.Lines = []string{`{"level":"info","v":1.5,"b":{"c":"x"},"msg":"hello"}`, `{"level":"error","v":7,"msg":"a\"b"}`, `{"v":"3"}`}
	case 1:
		r.Lines = []string{`level=info v=2.5 msg="hello world"`, `level=warn v=9 msg=x`, `v=0.1`}
	case 2:
		r.Lines = []string{`not json {`, `{"level":"info","v":2}`, `[1,2]`, `"str"`, `{"nested":{"deep":{"x":[1,{"y":2}]}}}`, ``}
	}
	if rapid.IntRange(0, 3).Draw(rt, l+".vals") == 0 {
		r.Values = []float64{1e21, 1e-7, 0.1, 100, 3, -0.5, 1e15 + 0.5, 123456789.125, 2.5e-300}
	}
	if faulty {
		n := r.Series*r.RowsPer + 1
		switch rapid.IntRange(0, 7).Draw(rt, l+".fault") {
		case 0:
			r.ErrAtRow = rapid.IntRange(1, n).Draw(rt, l+".errat")
		case 1:
			r.StallAtRow = rapid.IntRange(1, n).Draw(rt, l+".stallat")
		case 2:
			r.QueryErr = true
		case 3:
			r.RowLatencyUs = rapid.SampledFrom([]int64{1, 100, 20000}).Draw(rt, l+".lat")
		case 4:
			r.QueryDelayUs = rapid.SampledFrom([]int64{10, 5000, 2000000}).Draw(rt, l+".qdelay")
		}
	}
	return r
}

func genReq(rt *rapid.T, l string, faulty bool) Req {
	r := Req{Kind: rapid.SampledFrom(kinds).Draw(rt, l+".kind"), Faulty: faulty}
	hostileParams := faulty && rapid.IntRange(0, 3).Draw(rt, l+".hp") == 0
	num := func(k string, def string) string {
		if hostileParams {
			return rapid.SampledFrom(numVals).Draw(rt, l+"."+k)
		}
		return def
	}
	switch {
	case strings.HasPrefix(r.Kind, "prom"):
		r.Query = rapid.SampledFrom(promQueries).Draw(rt, l+".pq")
		if r.Kind == "prom_series" && rapid.IntRange(0, 3).Draw(rt, l+".psel") != 0 {
			// the series endpoint takes selectors
			r.Query = rapid.SampledFrom([]string{`up`, `{__name__=~".+"}`, `x{a=~"b.*"}`, `http_requests_total{job="a"}`}).Draw(rt, l+".ps")
		}
		r.Start, r.End, r.Time = num("start", "946684800"), num("end", "946684860"), num("time", "946684860")
		// evaluation instants start + k*step, also below one second
		r.Step = rapid.SampledFrom([]string{"15", "15", "1", "0.5", "0.25", "250ms", "0.05", "0.007"}).Draw(rt, l+".pstep")
		if !hostileParams && rapid.IntRange(0, 3).Draw(rt, l+".wide") == 0 {
			// an hour in steps wider than the look-back window and than any range in the catalogue: the engine has to
			// seek inside a series between two evaluation instants, past its last sample
			r.End = "946688400"
			r.Step = rapid.SampledFrom([]string{"600", "301", "900"}).Draw(rt, l+".widestep")
		}
	case r.Kind == "search" || strings.HasPrefix(r.Kind, "tag"):
		r.Query = rapid.SampledFrom(traceQLs).Draw(rt, l+".tq")
		r.Start, r.End = num("start", "946684800"), num("end", "946684860")
		r.Name = rapid.SampledFrom([]string{"service.name", "name", "a.b", "", "x'y", ".a", "resource.service.name"}).Draw(rt, l+".tag")
		r.Limit = "20"
	case r.Kind == "trace" || r.Kind == "trace_json":
		r.Name = rapid.SampledFrom([]string{"0102030405060708090a0b0c0d0e0f10", "01", "zz", "", strings.Repeat("ab", 40), "0102030405060708090a0b0c0d0e0f1"}).Draw(rt, l+".tid")
	default:
		r.Query = genLogQL(rt, l+".q")
		if (r.Kind == "render_diff" || strings.HasPrefix(r.Kind, "prof")) && rapid.IntRange(0, 3).Draw(rt, l+".profsel") != 0 {
			// profile queries are a type id plus a stream selector
			r.Query = rapid.SampledFrom([]string{`{service_name="x"}`, `{service_name="x", env=~"p.*"}`, `{}`, `{a!="b"}`,
				`{service_name="x", a="1", b="2", c="3", d="4", e="5", f="6", g="7", h="8", i="9"}`}).Draw(rt, l+".profq")
			r.ProfType = rapid.IntRange(0, 1).Draw(rt, l+".proftype")
		}
		r.Start, r.End, r.Time = num("start", "946684800000000000"), num("end", "946684860000000000"), num("time", "946684860000000000")
		r.Step = "5"
		r.Name = rapid.SampledFrom([]string{"app", "series", "a b", "x'y\\", ""}).Draw(rt, l+".lname")
	}
	if hostileParams {
		r.Step = rapid.SampledFrom(stepVals).Draw(rt, l+".step")
		r.Limit = rapid.SampledFrom(limitVals).Draw(rt, l+".limit")
	} else if r.Limit == "" {
		r.Limit = rapid.SampledFrom([]string{"", "1", "5", "100", "1000", "10000"}).Draw(rt, l+".lim")
	}
	r.Direction = rapid.SampledFrom([]string{"", "forward", "backward", "x"}).Draw(rt, l+".dir")
	if rapid.IntRange(0, 4).Draw(rt, l+".mutq") == 0 {
		r.Query = mutate(rt, l+".m", r.Query)
		r.Mutated = true
	}
	r.Result = genResult(rt, l+".res", faulty)
	if (r.Kind == "search" || strings.HasPrefix(r.Kind, "tag")) && rapid.IntRange(0, 2).Draw(rt, l+".complex") == 0 {
		// a complexity estimate above the threshold: the request is answered by the portion-wise processor, which
		// delivers its traces in batches of another shape
		r.Result.Complexity = int64(rapid.IntRange(2, 4).Draw(rt, l+".portions"))*10000000 - 1
	}
	if faulty && (r.Kind == "trace" || r.Kind == "trace_json" || r.Kind == "search") {
		r.Result.TraceShape = rapid.SampledFrom([]int{0, 0, 1, 2, 3, 4, 5}).Draw(rt, l+".traceshape")
	} else if r.Kind == "trace" || r.Kind == "trace_json" {
		// well-formed spans in the other stored encoding (OTLP as JSON)
		r.Result.TraceShape = rapid.SampledFrom([]int{0, 0, 5}).Draw(rt, l+".traceshape")
	}
	switch r.Kind {
	case "labels", "label_values", "prom_labels", "prom_label_values", "tags", "tag_values", "tags_v2", "tag_values_v2", "series", "prom_series":
		// a NULL among the rows of a list is a result-set shape, not a fault
		if rapid.IntRange(0, 4).Draw(rt, l+".null?") == 0 {
			r.Result.NullAtRow = rapid.IntRange(1, 4).Draw(rt, l+".nullat")
		}
	}
	if faulty && r.Result.NullAtRow == 0 && rapid.IntRange(0, 7).Draw(rt, l+".nullany?") == 0 {
		// any statement may return a row the reader cannot scan
		r.Result.NullAtRow = rapid.IntRange(1, 4).Draw(rt, l+".nullanyat")
	}
	if strings.HasPrefix(r.Kind, "prof") || r.Kind == "render_diff" {
		// what the Pyroscope tables hold: well formed, or (with faults on) any shape a database can return
		shapes := []int{0, 0, 0, 3, 8}
		if faulty {
			shapes = []int{0, 0, 1, 2, 3, 4, 5, 6, 7, 8}
		}
		r.Result.ProfShape = rapid.SampledFrom(shapes).Draw(rt, l+".profshape")
	}
	if faulty {
		if rapid.IntRange(0, 6).Draw(rt, l+".slow") == 0 {
			r.WriteUs = rapid.SampledFrom([]int64{1, 1000}).Draw(rt, l+".writeus")
		}
		// a client that gives up is most interesting while the database is stalling or slow - or while the client itself
		// reads slowly: the handler then sits in a write with the whole pipeline backed up behind it
		cancelOdds := 5
		if r.Result.StallAtRow > 0 || r.Result.QueryDelayUs >= 2000000 || r.WriteUs > 0 {
			cancelOdds = 1
		}
		if rapid.IntRange(0, cancelOdds).Draw(rt, l+".cancel") == 0 {
			r.CancelUs = rapid.SampledFrom([]int64{1, 50, 3000, 500000}).Draw(rt, l+".cancelus")
			if r.WriteUs > 0 {
				// after a few chunks of the response
				r.CancelUs = r.WriteUs*int64(rapid.IntRange(1, 6).Draw(rt, l+".cancelchunks")) + rapid.SampledFrom([]int64{0, 1, 500}).Draw(rt, l+".canceloff")
			}
		}
		r.NoDB = rapid.IntRange(0, 20).Draw(rt, l+".nodb") == 0
	}
	if r.Kind == "tail" {
		r.TailMs = rapid.SampledFrom([]int64{0, 500, 1500, 3200}).Draw(rt, l+".tailms")
		if r.Result.StallAtRow > 0 {
			r.Result.StallAtRow = 0 // a stalled tick simply waits for the consumer's Close
		}
	}
	r.ThinkUs = rapid.SampledFrom([]int64{0, 0, 10, 1500}).Draw(rt, l+".think")
	return r
}

// GenScenario draws a reader scenario; faulty enables database/client faults.
func GenScenario(faulty bool) func(rt *rapid.T) Scenario {
	return func(rt *rapid.T) Scenario {
		s := Scenario{Cluster: rapid.SampledFrom([]string{"", "", "c1"}).Draw(rt, "cluster")}
		nc := rapid.IntRange(1, 3).Draw(rt, "clients")
		for c := 0; c < nc; c++ {
			n := rapid.IntRange(1, 4).Draw(rt, fmt.Sprintf("c%d.n", c))
			var reqs []Req
			for i := 0; i < n; i++ {
				// a fault-free scenario still has a request now and then that the database fails or the client abandons:
				// the documents of the *other* requests are judged (what a failed request leaves behind must not reach them)
				f := faulty || rapid.IntRange(0, 6).Draw(rt, fmt.Sprintf("c%d.r%d.faulty", c, i)) == 0
				reqs = append(reqs, genReq(rt, fmt.Sprintf("c%d.r%d", c, i), f))
			}
			s.Clients = append(s.Clients, reqs)
		}
		if faulty && rapid.IntRange(0, 5).Draw(rt, "connerr") == 0 {
			s.ConnErrs = rapid.IntRange(1, 3).Draw(rt, "connerrs")
		}
		s.Sched = rapid.SliceOfN(rapid.Byte(), 0, 32).Draw(rt, "sched")
		s.SchedSeed = rapid.Uint64().Draw(rt, "schedseed")
		s.Preempt = rapid.SampledFrom([]int64{0, 0, 5, 40, 400}).Draw(rt, "preempt")
		return s
	}
}
