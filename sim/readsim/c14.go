package readsim

import (
	"context"
	"fmt"
	"hash/fnv"
	"os"
	"regexp"
	"runtime/debug"
	"sort"
	"strconv"
	"strings"
	"sync"
	"testing"
	"testing/synctest"
	"time"

	"github.com/metrico/qryn/reader/model"
	"github.com/metrico/qryn/reader/service"
	"github.com/metrico/qryn/zz_verif/simcheck"
	"github.com/metrico/qryn/zz_verif/simrt"
	"github.com/metrico/qryn/zz_verif/sqlfake"
	"pgregory.net/rapid"
)

// C14Scenario: one subject query translated (a) first, (b) after a history of other
// translations, (c) interleaved with concurrent translations, and - for log queries -
// (d) re-executed by the live-tail loop for several ticks on one prepared plan.
type C14Scenario struct {
	Cluster   string         `json:"cluster"`
	Subject   Req            `json:"subject"`
	History   []Req          `json:"history"`
	Parallel  []Req          `json:"parallel"`
	TailTicks int            `json:"tail_ticks"`
	TailRows  sqlfake.Result `json:"tail_rows"`
	Sched     []byte         `json:"sched"`
	// TailMidnight: the tail starts two seconds before a UTC date change (plans carry date bounds for partition pruning)
	TailMidnight bool `json:"tail_midnight,omitempty"`
	// time of day: the subject's range starts SubjectTodS seconds after midnight UTC; the translations after the history
	// are made for the range moved by HistShiftDays whole days, and history request i is moved to that day at HistTodS[i]
	SubjectTodS   int64   `json:"subject_tod_s,omitempty"`
	HistShiftDays int64   `json:"hist_shift_days,omitempty"`
	HistTodS      []int64 `json:"hist_tod_s,omitempty"`
	// DayBase moves every request of the run by that many days. It is not drawn: each run of a worker process gets days no
	// earlier run of the process has used (NextDayBase), so that a run is judged on what it did itself even when the server
	// keeps state per calendar day across requests; the value is part of the replay file.
	DayBase   int64  `json:"day_base,omitempty"`
	SchedSeed uint64 `json:"sched_seed"`
	Preempt   int64  `json:"preempt,omitempty"` // see simrt.SetPreempt
}

var dayCounter int64

// NextDayBase returns a block of four days that no earlier run of this process has touched.
func NextDayBase() int64 {
	dayCounter++
	// (nanosecond timestamps fit an int64 up to the year 2262: 20 000 blocks of four days end in 2219; a process that
	// makes more runs than that starts over)
	return (dayCounter % 20000) * 4
}

func genC14(rt *rapid.T) C14Scenario {
	s := C14Scenario{Cluster: rapid.SampledFrom([]string{"", "", "c1"}).Draw(rt, "cluster")}
	s.Subject = genReq(rt, "subject", false)
	subjectKinds := map[string]bool{"query_range": true, "query": true, "search": true, "series": true, "label_values": true, "tags_v2": true, "tag_values_v2": true,
		// profile queries (the quantifier names them) and PromQL
		"prof_merge": true, "prof_select_series": true, "prof_series": true, "prof_label_names": true, "prof_label_values": true, "prof_merge_profiles": true, "render_diff": true,
		"prom_range": true, "prom_instant": true, "prom_series": true}
	for !subjectKinds[s.Subject.Kind] {
		s.Subject.Kind = rapid.SampledFrom([]string{"query_range", "query_range", "query", "search", "series", "tags_v2", "tag_values_v2"}).Draw(rt, "subject.kind2")
		if s.Subject.Kind == "search" || strings.HasPrefix(s.Subject.Kind, "tag") {
			s.Subject.Query = rapid.SampledFrom(traceQLs).Draw(rt, "subject.tq2")
			s.Subject.Start, s.Subject.End, s.Subject.Limit = "946684800", "946684860", "20"
		} else if !strings.HasPrefix(s.Subject.Query, "{") && !strings.Contains(s.Subject.Query, "(") {
			s.Subject.Query = genLogQL(rt, "subject.q2")
			s.Subject.Start, s.Subject.End = "946684800000000000", "946684860000000000"
		}
	}
	s.Subject.Result.Series, s.Subject.Result.RowsPer = rapid.IntRange(0, 2).Draw(rt, "subject.series"), rapid.IntRange(0, 3).Draw(rt, "subject.rows")
	if (s.Subject.Kind == "search" || strings.HasPrefix(s.Subject.Kind, "tag")) && rapid.Bool().Draw(rt, "subject.complex") {
		// a complexity estimate above the threshold makes the processor execute one prepared plan once per portion
		s.Subject.Result.Complexity = int64(rapid.IntRange(2, 4).Draw(rt, "subject.portions"))*10000000 - 1
	}
	nh := rapid.IntRange(0, 4).Draw(rt, "nh")
	for i := 0; i < nh; i++ {
		s.History = append(s.History, genReq(rt, fmt.Sprintf("h%d", i), false))
	}
	tods := []int64{0, 0, 600, 1799, 1800, 1801, 2700, 43200, 86400 - 120}
	s.SubjectTodS = rapid.SampledFrom(tods).Draw(rt, "subject.tod")
	// (0 and 1 stay inside the run's own block of four days; 31 and 366 - the same day of the month one month or one
	// year on - are congruent to 3 and 2 modulo 4 and so never fall on a day another run starts from)
	s.HistShiftDays = rapid.SampledFrom([]int64{0, 0, 1, 31, 366}).Draw(rt, "hist.days")
	for i := 0; i < nh; i++ {
		s.HistTodS = append(s.HistTodS, rapid.SampledFrom(tods).Draw(rt, fmt.Sprintf("h%d.tod", i)))
	}
	np := rapid.IntRange(0, 3).Draw(rt, "np")
	for i := 0; i < np; i++ {
		s.Parallel = append(s.Parallel, genReq(rt, fmt.Sprintf("p%d", i), false))
	}
	if s.Subject.Result.Complexity > 0 && rapid.Bool().Draw(rt, "twin?") {
		// a request of the same family translated while the subject is between two portions of its plan
		twin := s.Subject
		twin.Query = rapid.SampledFrom(traceQLs).Draw(rt, "twin.q")
		twin.Result.Complexity = int64(rapid.SampledFrom([]int{0, 2}).Draw(rt, "twin.portions")) * 10000000
		s.Parallel = append(s.Parallel, twin)
	}
	if (strings.HasPrefix(s.Subject.Kind, "prof") || s.Subject.Kind == "render_diff") && rapid.Bool().Draw(rt, "proftwin?") {
		// the same selector text asked for another profile type while the subject is being translated
		twin := s.Subject
		twin.ProfType = 1 - s.Subject.ProfType
		s.Parallel = append(s.Parallel, twin)
	}
	// live tailing is defined for log queries (stream selector + pipeline) only
	if (s.Subject.Kind == "query_range" || s.Subject.Kind == "query") && strings.HasPrefix(strings.TrimSpace(s.Subject.Query), "{") {
		s.TailTicks = rapid.IntRange(0, 4).Draw(rt, "ticks")
		s.TailRows = sqlfake.Result{Series: rapid.IntRange(0, 2).Draw(rt, "tail.series"), RowsPer: rapid.IntRange(0, 3).Draw(rt, "tail.rows"), StepNs: 1000000}
		s.TailMidnight = s.TailTicks >= 3 && rapid.IntRange(0, 2).Draw(rt, "tail.midnight") == 0
	}
	s.Sched = rapid.SliceOfN(rapid.Byte(), 0, 16).Draw(rt, "sched")
	s.SchedSeed = rapid.Uint64().Draw(rt, "schedseed")
	s.Preempt = rapid.SampledFrom([]int64{0, 0, 5, 40, 400}).Draw(rt, "preempt")
	return s
}

var (
	reBigNum  = regexp.MustCompile(`\b[0-9]{9,}\b`)
	reDateLit = regexp.MustCompile(`'[0-9]{4}-[0-9]{2}-[0-9]{2}( [0-9:]{8})?'`)
	reAliasN  = regexp.MustCompile(`\b([A-Za-z_]+?)_?[0-9]+\b`)
	reWSs     = regexp.MustCompile(`\s+`)
)

// canon erases what may legitimately differ between two executions of the same query:
// time literals derived from From/To/now and the numeric suffixes of generated aliases.
func canon(q string) string {
	q = reDateLit.ReplaceAllString(q, "'D'")
	q = reBigNum.ReplaceAllString(q, "T")
	q = reWSs.ReplaceAllString(q, " ")
	// IN (1,2,3) is a set: a follow-up statement lists the fingerprints the first statement returned in the order
	// of a Go map; the order of the members does not change the meaning of the statement
	q = reNumList.ReplaceAllStringFunc(q, func(m string) string {
		i := strings.Index(m, "(")
		items := strings.Split(strings.Trim(m[i:], "()"), ",")
		for k := range items {
			items[k] = strings.TrimSpace(items[k])
		}
		sort.Strings(items)
		return m[:i] + "(" + strings.Join(items, ",") + ")"
	})
	return strings.TrimSpace(q)
}

var reNumList = regexp.MustCompile(`(?i)\bIN \(\s*[0-9T]+(\s*,\s*[0-9T]+)+\s*\)`)

var (
	rePortion = regexp.MustCompile(`cityHash64\(trace_id\) % [0-9]+\)+ == \(+[0-9]+\)+`)
	reIDs     = regexp.MustCompile(`(?i)\(*trace_id\)* IN \((\s*unhex\('[0-9a-fA-FT]*'\)\s*,?)*\)`)
	reOrIDs   = regexp.MustCompile(`(?i)\s*(or|and)\s*\(*IDS\)*`)
)

func canonPortion(q string) string {
	q = rePortion.ReplaceAllString(q, "PORTION")
	q = reIDs.ReplaceAllString(q, "IDS")
	q = reOrIDs.ReplaceAllString(q, "")
	// the clause that excludes the traces found so far comes with its own brackets: compare without them
	q = strings.NewReplacer("(", "", ")", "").Replace(q)
	return q
}

func canonList(stmts []*sqlfake.Stmt, r Req) []string {
	var res []string
	ref, ok := startDay(r)
	for _, s := range stmts {
		if s.Class == "data" {
			q := s.SQL
			if ok {
				// a date bound (partition pruning) is a function of the request's own time range: it is kept, as a number
				// of days relative to the day the range starts on, so that a request moved by whole days has to give the
				// same text
				q = reDayLit.ReplaceAllStringFunc(q, func(m string) string {
					d, err := time.Parse("2006-01-02", strings.Trim(m, "'"))
					if err != nil {
						return m
					}
					return fmt.Sprintf("'DAY%+d'", d.Unix()/86400-ref)
				})
			}
			res = append(res, canon(q))
		}
	}
	return res
}

var reDayLit = regexp.MustCompile(`'[0-9]{4}-[0-9]{2}-[0-9]{2}'`)

// reqTime reads a time parameter the way the endpoints do: seconds or nanoseconds since the epoch.
func reqTime(v string) (int64, bool) {
	n, err := strconv.ParseInt(v, 10, 64)
	if err != nil || n <= 0 {
		return 0, false
	}
	if len(v) >= 16 {
		return n, true
	}
	return n * 1000000000, true
}

// agreed reports whether the harness and the endpoint read the value the same way: Prometheus and Tempo endpoints take
// seconds, the others are sent nanoseconds (the profile endpoints get them converted to milliseconds).
func agreed(r Req, v string) bool {
	if _, ok := reqTime(v); !ok {
		return false
	}
	if strings.HasPrefix(r.Kind, "prom") || r.Kind == "search" || strings.HasPrefix(r.Kind, "tag") {
		return len(v) < 16
	}
	return len(v) >= 16
}

func startDay(r Req) (int64, bool) {
	v := r.Start
	if r.Kind == "query" || r.Kind == "prom_instant" {
		v = r.Time // instant queries are evaluated at `time`
	}
	if !agreed(r, v) {
		return 0, false
	}
	ns, _ := reqTime(v)
	return ns / 1000000000 / 86400, true
}

// shiftReq moves the time range of a request by d.
func shiftReq(r Req, d time.Duration) Req {
	if d == 0 {
		return r
	}
	for _, f := range []*string{&r.Start, &r.End, &r.Time} {
		if !agreed(r, *f) || (f == &r.Time && r.Kind == "search") { // (search: Time is sent as maxDuration)
			continue
		}
		n, _ := strconv.ParseInt(*f, 10, 64)
		if len(*f) >= 16 {
			n += int64(d)
		} else {
			n += int64(d / time.Second)
		}
		*f = strconv.FormatInt(n, 10)
	}
	return r
}

// process-wide memory of translations: the same request (kind, query, parameters, cluster) must yield
// the same canonical SQL whatever was translated before in this process (thousands of earlier runs)
var seenSQL sync.Map

// RunC14 executes a scenario and evaluates the C14 oracles.
func RunC14(t *testing.T, s C14Scenario) (ri *simcheck.RunInfo) {
	ri = &simcheck.RunInfo{Faults: map[string]int{}, Probes: map[string]int{}}
	var harnessErr string
	func() {
		defer func() {
			if r := recover(); r != nil {
				msg := fmt.Sprint(r)
				if !strings.Contains(msg, "blocked goroutines remain") && !strings.Contains(msg, "deadlock") {
					harnessErr = msg + "\n" + string(debug.Stack())
				}
			}
		}()
		synctest.Test(t, func(t *testing.T) { c14body(ri, s) })
	}()
	if harnessErr != "" {
		panic("harness: " + harnessErr)
	}
	return ri
}

func c14body(ri *simcheck.RunInfo, s C14Scenario) {
	t0 := time.Now()
	sim := simrt.New(s.Sched, s.SchedSeed)
	sim.SetPreempt(s.Preempt, s.SchedSeed)
	sim.MaxSpin = maxSpin
	defer sim.Close()
	st := &runState{s: Scenario{Cluster: s.Cluster}}
	st.db = sqlfake.NewDB(nil)
	var sys *System
	built := make(chan struct{})
	sim.Spawn("system", func() { sys = buildReader(st.db, s.Cluster); close(built) })
	select {
	case <-built:
	case <-sim.Killed():
		return
	}
	add := func(oracle, sig, detail string) {
		ri.Violations = append(ri.Violations, &simcheck.Violation{Property: "C14", Oracle: oracle, Signature: sig, Detail: detail})
	}
	var first, afterHist, interleaved []string
	base := time.Duration(s.DayBase) * 24 * time.Hour
	subject := shiftReq(s.Subject, base+time.Duration(s.SubjectTodS)*time.Second)
	aborted := false
	byPosition := false
	var tickSQL [][]string
	var tailDateViol string
	done := make(chan struct{})
	sim.Spawn("client", func() {
		defer close(done)
		// (a) first
		st.client(sys, 0, []Req{subject})
		first = canonList(st.reqs[len(st.reqs)-1].Stmts, subject)
		byPosition = st.reqs[len(st.reqs)-1].ByPosition
		// (b) after a history of other translations; both on another day when the scenario says so
		day := time.Duration(s.HistShiftDays) * 24 * time.Hour
		for i, h := range s.History {
			h = shiftReq(h, base)
			var tod int64
			if i < len(s.HistTodS) {
				tod = s.HistTodS[i]
			}
			st.client(sys, 0, []Req{shiftReq(h, day+time.Duration(tod)*time.Second)})
		}
		later := shiftReq(subject, day)
		st.client(sys, 0, []Req{later})
		afterHist = canonList(st.reqs[len(st.reqs)-1].Stmts, later)
	})
	select {
	case <-done:
	case <-time.After(10 * time.Minute):
		add("harness", "C14 sequential phase did not finish", "")
		return
	case <-sim.Killed():
		// crashed or livelocked (C12's business): the translations were not all made, nothing to compare
		ri.Probes["c14-run-aborted"]++
		aborted = true
	}
	// (c) interleaved with concurrent translations
	st.mu.Lock()
	st.concurrent = true
	st.mu.Unlock()
	var wg sync.WaitGroup
	var subj *reqRec
	wg.Add(1)
	sim.Spawn("client", func() {
		defer wg.Done()
		st.mu.Lock()
		n := len(st.reqs)
		st.mu.Unlock()
		_ = n
		st.clientRec(sys, 1, subject, func(r *reqRec) { subj = r })
	})
	for i, p := range s.Parallel {
		wg.Add(1)
		p := p
		i := i
		sim.Spawn("client", func() { defer wg.Done(); st.client(sys, 2+i, []Req{shiftReq(p, base)}) })
	}
	pd := make(chan struct{})
	go func() { wg.Wait(); close(pd) }()
	select {
	case <-pd:
	case <-time.After(10 * time.Minute):
	case <-sim.Killed():
	}
	if subj != nil {
		// statements of the interleaved subject request: recorded by context tag, not by position
		interleaved = canonList(subj.Stmts, subject)
	}
	// (d) live tail re-executes one prepared plan every second
	if s.TailTicks > 0 && len(sim.Crashes) == 0 {
		td := make(chan struct{})
		sim.Spawn("client", func() {
			defer close(td)
			tickSQL = runTail(st, sys, s, &tailDateViol)
		})
		select {
		case <-td:
		case <-time.After(25*time.Hour + time.Duration(s.TailTicks+30)*time.Second):
		case <-sim.Killed():
		}
	}
	sim.Kill()
	sim.WaitStopped()
	synctest.Wait()
	if os.Getenv("VERIF_DEBUG") != "" {
		for _, r := range st.reqs {
			b := r.Body.String()
			if len(b) > 200 {
				b = b[:200]
			}
			fmt.Fprintf(os.Stderr, "C14DEBUG client=%d %s %q status=%d returned=%v panicked=%q stmts=%d byPos=%v body=%q\n", r.Client, r.Req.Kind, r.Req.Query, r.Status, r.Returned, r.Panicked, len(r.Stmts), r.ByPosition, b)
		}
		for _, c := range sim.Crashes {
			fmt.Fprintf(os.Stderr, "C14DEBUG crash %s %s\n%s\n", c.Role, c.Value, c.Stack)
		}
	}

	// follow-up statements may depend on what the database answered, so the answer is part of the identity
	key := fmt.Sprintf("%s|%s|%s|%s|%s|%s|%s|%s|%s|%s|%+v", s.Cluster, s.Subject.Kind, s.Subject.Query, s.Subject.Start, s.Subject.End, s.Subject.Step, s.Subject.Limit, s.Subject.Direction, s.Subject.Time, s.Subject.Name, s.Subject.Result) + fmt.Sprint("|tod", s.SubjectTodS, "|pt", s.Subject.ProfType)
	diff := func(a, b []string) (int, string, string) {
		for i := 0; i < len(a) || i < len(b); i++ {
			var x, y string
			if i < len(a) {
				x = a[i]
			}
			if i < len(b) {
				y = b[i]
			}
			if x != y {
				return i, x, y
			}
		}
		return -1, "", ""
	}
	short := func(a, b string) string {
		i := 0
		for i < len(a) && i < len(b) && a[i] == b[i] {
			i++
		}
		lo := i - 60
		if lo < 0 {
			lo = 0
		}
		cut := func(x string) string {
			hi := i + 120
			if hi > len(x) {
				hi = len(x)
			}
			if lo > len(x) {
				return ""
			}
			return x[lo:hi]
		}
		return fmt.Sprintf("...%s... VERSUS ...%s...", cut(a), cut(b))
	}
	if len(sim.Crashes) == 0 && sim.Livelock == "" && !aborted {
		if i, x, y := diff(first, afterHist); i >= 0 {
			add("sql-depends-on-history", "same request translates differently after other translations: "+s.Subject.Kind+" "+classOfQuery(s.Subject.Query),
				fmt.Sprintf("request %s query=%q: statement #%d differs between the first translation and the one after %d other requests: %s", s.Subject.Kind, s.Subject.Query, i, len(s.History), short(x, y)))
		}
		if byPosition {
			// the endpoint does not carry the request context to its statements: under concurrency
			// they cannot be attributed to a request, so (c) is not judged for it
			ri.Probes["c14-unattributable-"+s.Subject.Kind]++
		}
		if subj != nil && subj.Returned && !byPosition {
			if i, x, y := diff(first, interleaved); i >= 0 {
				add("sql-depends-on-interleaving", "same request translates differently when interleaved with other translations: "+s.Subject.Kind+" "+classOfQuery(s.Subject.Query),
					fmt.Sprintf("request %s query=%q: statement #%d differs when %d other requests run concurrently: %s", s.Subject.Kind, s.Subject.Query, i, len(s.Parallel), short(x, y)))
			}
		}
		if prev, ok := seenSQL.Load(key); ok {
			if i, x, y := diff(prev.([]string), first); i >= 0 {
				add("sql-depends-on-process-history", "same request translates differently than earlier in this process: "+s.Subject.Kind+" "+classOfQuery(s.Subject.Query),
					fmt.Sprintf("request %s query=%q: statement #%d differs from the translation of the same request in an earlier run of this process: %s", s.Subject.Kind, s.Subject.Query, i, short(x, y)))
			}
		} else if len(first) > 0 {
			seenSQL.Store(key, first)
		}
		for k := 1; k < len(tickSQL); k++ {
			// (two ticks executed at one instant - the loop was held up and found the next tick already queued - carry
			// the same bound legitimately: only an execution that started later must look further)
			if len(tickSQL[k]) == 3 && len(tickSQL[0]) == 3 && tickSQL[0][1] != "" && startedLater(tickSQL[k][2], tickSQL[0][2]) && !(len(tickSQL[k][1]) > len(tickSQL[0][1]) || tickSQL[k][1] > tickSQL[0][1]) {
				add("plan-not-reexecutable", "re-executing a prepared plan keeps the first execution's time bounds: "+classOfQuery(s.Subject.Query),
					fmt.Sprintf("live tail of %q: the upper time bound of tick %d (%s) is not later than tick 1's (%s)", s.Subject.Query, k+1, tickSQL[k][1], tickSQL[0][1]))
				break
			}
			if i, x, y := diff(tickSQL[0][:1], tickSQL[k][:1]); i >= 0 {
				add("plan-not-reexecutable", "re-executing a prepared plan changes the statement: "+classOfQuery(s.Subject.Query),
					fmt.Sprintf("live tail of %q: statement #%d of tick %d differs from tick 1 beyond the time bounds: %s", s.Subject.Query, i, k+1, short(x, y)))
				break
			}
		}
	}
	if tailDateViol != "" && len(sim.Crashes) == 0 && sim.Livelock == "" {
		add("plan-not-reexecutable", "re-executing a prepared plan keeps the first execution's date bounds: "+classOfQuery(s.Subject.Query), tailDateViol)
	}
	// portions of a complex TraceQL request: one prepared plan executed once per portion; apart from the
	// portion selector and the list of already found trace ids every execution must be the same statement
	var portions []string
	for _, q := range first {
		if strings.Contains(q, "cityHash64(trace_id) %") {
			portions = append(portions, canonPortion(q))
		}
	}
	if len(portions) > 1 && len(sim.Crashes) == 0 {
		ri.Probes["traceql-portions-compared"] += len(portions) - 1
		for k := 1; k < len(portions); k++ {
			if portions[k] != portions[0] {
				add("plan-not-reexecutable", "re-executing a prepared plan changes the statement: traceql portions "+classOfQuery(s.Subject.Query),
					fmt.Sprintf("%s q=%q: the statement of portion %d differs from portion 1 beyond the portion selector: %s", s.Subject.Kind, s.Subject.Query, k+1, short(portions[0], portions[k])))
				break
			}
		}
	}
	if len(tickSQL) > 1 {
		ri.Probes["tail-ticks-compared"] += len(tickSQL) - 1
	}
	if len(first) > 0 {
		ri.Probes["translations-compared"]++
	}
	ri.Probes["subject-"+s.Subject.Kind]++
	h := fnv.New64a()
	fmt.Fprintf(h, "%s|%x|%d|%d", key, sim.TraceHash(), len(s.History), len(s.Parallel))
	ri.Hash = h.Sum64()
	ri.Steps = sim.Steps
	if sim.Resumes > 0 {
		ri.Probes["woke-outside-the-baton-and-requeued"] += int(sim.Resumes)
	}
	if sim.Preempts > 0 {
		ri.Faults["sched-preempt-between-sync-ops"] += int(sim.Preempts)
	}
	ri.SimNanos = int64(time.Since(t0))
	ri.NonTrivial = len(first) > 0 && (len(s.History) > 0 || len(s.Parallel) > 0 || len(tickSQL) > 1)
	ri.Sample = map[string]any{"subject": s.Subject.Kind + " " + s.Subject.Query, "history": len(s.History), "parallel": len(s.Parallel), "tail_ticks": len(tickSQL), "statements": len(first), "first_statement": firstOr(first)}
}

var reTs19 = regexp.MustCompile(`\b[0-9]{18,19}\b`)

// maxTime returns the largest nanosecond literal of a statement (its upper time bound).
func maxTime(q string) string {
	m := ""
	for _, x := range reTs19.FindAllString(q, -1) {
		if len(x) > len(m) || (len(x) == len(m) && x > m) {
			m = x
		}
	}
	return m
}

func firstOr(a []string) string {
	if len(a) == 0 {
		return ""
	}
	if len(a[0]) > 600 {
		return a[0][:600]
	}
	return a[0]
}

// classOfQuery names the stages of a query so that one defect has one signature.
func classOfQuery(q string) string {
	var parts []string
	for _, k := range []string{"|=", "!=", "|~", "!~", "| json", "| logfmt", "line_format", "label_format", "| regexp", "unwrap", "| drop", "rate(", "count_over_time", "bytes_", "absent_over_time", "sum", "avg", "topk", "bottomk", "quantile", "&&", "||", "| count", "| avg"} {
		if strings.Contains(q, k) {
			parts = append(parts, strings.TrimSpace(k))
		}
	}
	return "[" + strings.Join(parts, " ") + "]"
}

// clientRec runs one request and hands its record to cb.
func (st *runState) clientRec(sys *System, ci int, r Req, cb func(*reqRec)) {
	st.mu.Lock()
	n := len(st.reqs)
	st.mu.Unlock()
	_ = n
	st.client(sys, ci, []Req{r})
	st.mu.Lock()
	defer st.mu.Unlock()
	for i := len(st.reqs) - 1; i >= 0; i-- {
		if st.reqs[i].Req.Kind == r.Kind && st.reqs[i].Req.Query == r.Query && st.reqs[i].Client == ci {
			cb(st.reqs[i])
			return
		}
	}
}

// runTail drives QueryRangeService.Tail the way the controller does: read until a deadline, Close, drain.
func runTail(st *runState, sys *System, s C14Scenario, dateViol *string) [][]string {
	svc := &service.QueryRangeService{ServiceData: model.ServiceData{Session: sys.Reg}}
	if s.TailMidnight {
		now := time.Now().UTC()
		next := time.Date(now.Year(), now.Month(), now.Day(), 0, 0, 0, 0, time.UTC).Add(24 * time.Hour)
		time.Sleep(next.Sub(now) - 2*time.Second + simrt.Skew())
		simrt.Yield("tail:before-midnight")
	}
	res := s.TailRows
	// rows must be newer than "now - 5 min" to move the tail cursor
	res.BaseNs = time.Now().Add(-time.Minute).UnixNano()
	ctx, cancel := context.WithCancel(sqlfake.WithScript(context.Background(), &res))
	defer cancel()
	from := st.db.Count()
	w, err := svc.Tail(ctx, s.Subject.Query)
	if err != nil {
		return nil
	}
	deadline := time.After(time.Duration(s.TailTicks)*time.Second + 500*time.Millisecond + simrt.Skew())
loop:
	for {
		select {
		case _, ok := <-w.GetRes():
			if !ok {
				break loop
			}
		case <-deadline:
			break loop
		}
		simrt.Yield("tail-consumer")
	}
	// a fresh translation of the same query, executed at the same moment as the next re-execution of the old plan:
	// both must search the same days
	res2 := s.TailRows
	res2.BaseNs = res.BaseNs
	ctx2, cancel2 := context.WithCancel(sqlfake.WithScript(context.Background(), &res2))
	defer cancel2()
	from2 := st.db.Count()
	if w2, err := svc.Tail(ctx2, s.Subject.Query); err == nil {
		d2 := time.After(1500*time.Millisecond + simrt.Skew())
	loop2:
		for {
			select {
			case _, ok := <-w2.GetRes():
				if !ok {
					break loop2
				}
			case _, ok := <-w.GetRes():
				if !ok {
					break loop2
				}
			case <-d2:
				break loop2
			}
			simrt.Yield("tail-consumer")
		}
		w2.Close()
		cancel2()
		go func() {
			for range w2.GetRes() {
			}
		}()
		var fresh, old *sqlfake.Stmt
		for _, stt := range st.db.ForScript(&res2, from2) {
			if stt.Class == "data" && fresh == nil {
				fresh = stt
			}
		}
		for _, stt := range st.db.ForScript(&res, from) {
			if stt.Class == "data" {
				old = stt
			}
		}
		if fresh != nil && old != nil && fresh.StartT.UTC().Format("2006-01-02") == old.StartT.UTC().Format("2006-01-02") {
			if fd, od := maxDate(fresh.SQL), maxDate(old.SQL); fd != "" && od != "" && od < fd {
				*dateViol = fmt.Sprintf("live tail of %q: executed at %s the re-executed plan searches days up to %s, a fresh translation of the same query up to %s",
					s.Subject.Query, old.StartT.UTC().Format(time.RFC3339), od, fd)
			}
		}
	}
	w.Close()
	cancel()
	go func() {
		for range w.GetRes() {
		}
	}()
	var ticks [][]string
	for _, stt := range st.db.ForScript(&res, from) {
		if stt.Class == "data" {
			if os.Getenv("VERIF_DEBUG") == "sql" {
				fmt.Fprintf(os.Stderr, "C14DEBUG tail tick %d: %s\n", len(ticks)+1, stt.SQL)
			}
			ticks = append(ticks, []string{canon(stt.SQL), maxTime(stt.SQL), strconv.FormatInt(stt.StartT.UnixNano(), 10)})
		}
	}
	return ticks
}

var reDateOnly = regexp.MustCompile(`'([0-9]{4}-[0-9]{2}-[0-9]{2})'`)

// maxDate returns the largest date literal of a statement (the last day it searches).
func maxDate(q string) string {
	m := ""
	for _, x := range reDateOnly.FindAllStringSubmatch(q, -1) {
		if x[1] > m {
			m = x[1]
		}
	}
	return m
}

func startedLater(a, b string) bool {
	x, _ := strconv.ParseInt(a, 10, 64)
	y, _ := strconv.ParseInt(b, 10, 64)
	return x > y
}
