package readsim

import (
	"bytes"
	"context"
	"encoding/json"
	"errors"
	"fmt"
	"hash/fnv"
	"math"
	"net/http"
	"net/http/httptest"
	"os"
	"regexp"
	"runtime"
	"runtime/debug"
	"sort"
	"strconv"
	"strings"
	"sync"
	"testing"
	"testing/synctest"
	"time"

	"github.com/metrico/qryn/reader/model"
	"github.com/metrico/qryn/reader/service"
	"github.com/metrico/qryn/zz_verif/simcheck"
	"github.com/metrico/qryn/zz_verif/simrt"
	"github.com/metrico/qryn/zz_verif/sqlfake"
)

type reqRec struct {
	ID        int
	Client    int
	Req       Req
	Status    int
	Statuses  []int
	Body      bytes.Buffer
	Returned  bool
	Panicked  string
	Cancelled bool
	WriteErrs int
	StartT    time.Time
	EndT      time.Time
	Stmts     []*sqlfake.Stmt
	Path      string
	// ByPosition: no statement carried the request's context; the statements were attributed by position
	ByPosition bool
}

type respWriter struct {
	h      http.Header
	rec    *reqRec
	ctx    context.Context
	delay  time.Duration
	chunks int
}

func (w *respWriter) Header() http.Header { return w.h }
func (w *respWriter) WriteHeader(code int) {
	if code < 100 || code > 999 {
		// as net/http does (checkWriteHeaderCode)
		panic(fmt.Sprintf("invalid WriteHeader code %v", code))
	}
	w.rec.Statuses = append(w.rec.Statuses, code)
	if w.rec.Status == 0 {
		w.rec.Status = code
	}
}
func (w *respWriter) Write(b []byte) (int, error) {
	if w.rec.Status == 0 {
		w.WriteHeader(200)
	}
	if w.ctx.Err() != nil {
		w.rec.WriteErrs++
		return 0, errors.New("write: broken pipe (client went away)")
	}
	if w.delay > 0 {
		time.Sleep(w.delay + simrt.Skew())
	}
	// a socket write is a system call: other goroutines run while the bytes of b are being copied out, and b must
	// still hold them afterwards
	simrt.Yield("client:write")
	w.chunks++
	return w.rec.Body.Write(b)
}
func (w *respWriter) Flush() {}

// maxSpin: scheduler grants without the simulated clock advancing before a run counts as livelocked. The reader
// legitimately streams up to a million matrix points per request without touching a timer (a few grants per
// point), so the budget has to sit above that.
const maxSpin = 20_000_000

type runState struct {
	s    Scenario
	mu   sync.Mutex
	reqs []*reqRec
	db   *sqlfake.DB
	next int
	// concurrent: several clients translate at once, statements can only be attributed by context
	concurrent bool
	promVals   int // values of plain PromQL selectors compared with the samples served (reach probe)
	bigSeen    int // integer attributes of JSON-stored OTLP spans compared (reach probe)
}

// RunRead executes a reader scenario and evaluates the oracles of C12 and C15.
func RunRead(t *testing.T, s Scenario) (ri *simcheck.RunInfo) {
	ri = &simcheck.RunInfo{Faults: map[string]int{}, Probes: map[string]int{}}
	st := &runState{s: s}
	var harnessErr string
	// a run starts with empty sync.Pools (two collections empty a pool and its victim cache): what one run leaves in a
	// pooled object - an encoder stream returned twice, say - must not be found by the next run of this worker process,
	// or the failure it causes there cannot be replayed from that run's scenario
	// (done where response bodies are judged; it costs two thirds of the throughput)
	if os.Getenv("VERIF_PROPERTY") == "C15" {
		runtime.GC()
		runtime.GC()
	}
	func() {
		defer func() {
			if r := recover(); r != nil {
				msg := fmt.Sprint(r)
				if !strings.Contains(msg, "blocked goroutines remain") && !strings.Contains(msg, "deadlock") {
					harnessErr = msg + "\n" + string(debug.Stack())
				}
			}
		}()
		synctest.Test(t, func(t *testing.T) { st.body(ri) })
	}()
	if harnessErr != "" {
		panic("harness: " + harnessErr)
	}
	return ri
}

func reqBound(r Req) time.Duration {
	if r.Kind == "tail" {
		return time.Duration(r.TailMs)*time.Millisecond + 45*time.Second
	}
	n := time.Duration(r.Result.Series*r.Result.RowsPer + 1)
	b := n*time.Duration(r.Result.RowLatencyUs)*time.Microsecond + time.Duration(r.Result.QueryDelayUs)*time.Microsecond
	b += n * time.Duration(r.WriteUs) * time.Microsecond * 4
	if r.Result.StallAtRow > 0 {
		b += 31 * time.Second
	}
	// a request may read its result set more than once: a metric query issues follow-up statements, a TraceQL request
	// above the complexity threshold executes its plan once per portion
	k := time.Duration(3)
	if r.Result.Complexity > 0 {
		k += 2 * time.Duration(r.Result.Complexity/10000000+1)
	}
	return k*b + 40*time.Second
}

func (st *runState) body(ri *simcheck.RunInfo) {
	s := st.s
	t0 := time.Now()
	sim := simrt.New(s.Sched, s.SchedSeed)
	sim.SetPreempt(s.Preempt, s.SchedSeed)
	sim.MaxSpin = maxSpin
	defer sim.Close()
	// the scripted result sets, in request order per client, are looked up by the driver per statement;
	// each request installs its own script just before it runs (requests of one client are sequential,
	// concurrent clients share the database like real ones)
	st.db = sqlfake.NewDB(nil)
	st.db.ConnectErr = s.ConnErrs
	var sys *System
	built := make(chan struct{})
	sim.Spawn("system", func() {
		sys = buildReader(st.db, s.Cluster)
		close(built)
	})
	select {
	case <-built:
	case <-sim.Killed():
		st.finish(ri, sim, t0, false)
		return
	}
	var wg sync.WaitGroup
	var total time.Duration
	for ci, reqs := range s.Clients {
		var d time.Duration
		for _, r := range reqs {
			d += reqBound(r) + time.Duration(r.ThinkUs)*time.Microsecond
		}
		if d > total {
			total = d
		}
		wg.Add(1)
		ci, reqs := ci, reqs
		sim.Spawn("client", func() {
			defer wg.Done()
			st.client(sys, ci, reqs)
		})
	}
	allDone := make(chan struct{})
	go func() { wg.Wait(); close(allDone) }()
	timedOut := false
	select {
	case <-allDone:
	case <-time.After(total):
		timedOut = true
	case <-sim.Killed():
	}
	if !timedOut && !isKilled(sim) {
		for waited := time.Duration(0); waited < 35*time.Second && !isKilled(sim); waited += 500 * time.Millisecond {
			if len(requestGoroutines(sim)) == 0 {
				break
			}
			time.Sleep(500 * time.Millisecond)
		}
	}
	st.finish(ri, sim, t0, timedOut)
}

func isKilled(s *simrt.Sim) bool {
	select {
	case <-s.Killed():
		return true
	default:
		return false
	}
}

func requestGoroutines(sim *simrt.Sim) []string {
	var res []string
	for _, g := range sim.Alive("") {
		if g.Role == "system" || g.Role == "client" || strings.HasPrefix(g.Root, "r001") {
			continue
		}
		res = append(res, fmt.Sprintf("%s(%s)@%s", g.ID, g.Role, g.Site()))
	}
	return res
}

func (st *runState) client(sys *System, ci int, reqs []Req) {
	for _, r := range reqs {
		if r.ThinkUs > 0 {
			time.Sleep(time.Duration(r.ThinkUs)*time.Microsecond + simrt.Skew())
			simrt.Yield("client:after-think")
		}
		st.mu.Lock()
		st.next++
		rec := &reqRec{ID: st.next, Req: r, StartT: time.Now(), Client: ci}
		st.reqs = append(st.reqs, rec)
		st.mu.Unlock()
		if r.NoDB {
			sys.Reg.failGets = 1
		}
		if r.Kind == "tail" {
			// live tail is driven at the service level (the websocket upgrade needs a socket); the consumer follows
			// the controller's contract: read until it is done, Close, drain
			rec.Path = "tail " + r.Query
			res := r.Result
			res.BaseNs = time.Now().Add(-time.Minute).UnixNano()
			st.db.SetScript(res)
			ctx, cancel := context.WithCancel(sqlfake.WithScript(context.Background(), &res))
			func() {
				defer func() {
					if p := recover(); p != nil {
						rec.Panicked = fmt.Sprint(p)
					}
				}()
				svc := &service.QueryRangeService{ServiceData: model.ServiceData{Session: sys.Reg}}
				w, err := svc.Tail(ctx, r.Query)
				if err != nil {
					rec.Status = 500
					return
				}
				rec.Status = 200
				deadline := time.After(time.Duration(r.TailMs)*time.Millisecond + simrt.Skew())
			loop:
				for {
					select {
					case _, ok := <-w.GetRes():
						if !ok {
							break loop
						}
					case <-deadline:
						break loop
					}
					simrt.Yield("tail-consumer")
				}
				w.Close()
				cancel()
				simrt.Go("tail-drain", func() {
					for range w.GetRes() {
					}
				})
			}()
			cancel()
			rec.Returned = true
			rec.EndT = time.Now()
			simrt.Yield("client:after-request")
			continue
		}
		method, path := r.URL()
		rec.Path = path
		res := r.Result
		// fallback for statements issued under a context that is not derived from the request's
		st.db.SetScript(res)
		ctx, cancel := context.WithCancel(sqlfake.WithScript(context.Background(), &res))
		if r.CancelUs > 0 {
			tm := time.AfterFunc(time.Duration(r.CancelUs)*time.Microsecond+simrt.Skew(), func() { rec.Cancelled = true; cancel() })
			defer tm.Stop()
		}
		var body *bytes.Reader
		if method == "POST" {
			// the handlers decode with encoding/json over the generated structs (snake_case tags); connect clients send camelCase
			startMs, endMs := int64(946684800000), int64(946684860000)
			if ns, ok := reqTime(r.Start); ok {
				startMs = ns / 1000000
			}
			if ns, ok := reqTime(r.End); ok {
				endMs = ns / 1000000
			}
			// the request's own selector and profile type (two requests with one selector text and different types exist)
			sel, _ := json.Marshal(`{service_name="x"}`)
			if strings.HasPrefix(r.Query, "{") && !r.Mutated {
				sel, _ = json.Marshal(r.Query)
			}
			tid := ProfTypes[r.ProfType%len(ProfTypes)]
			body = bytes.NewReader([]byte(fmt.Sprintf(`{"start":%d,"end":%d,"label_selector":%s,"labelSelector":%s,"profile_typeID":%q,"profileTypeID":%q,`, startMs, endMs, sel, sel, tid, tid) +
				`"name":"a","matchers":["{a=\"b\"}"],"label_names":["a"],"group_by":["a"],"step":15}`))
		} else {
			body = bytes.NewReader(nil)
		}
		req := httptest.NewRequest(method, "http://sim"+path, body).WithContext(ctx)
		if method == "POST" {
			req.Header.Set("Content-Type", "application/json")
		}
		rw := &respWriter{h: http.Header{}, rec: rec, ctx: ctx, delay: time.Duration(r.WriteUs) * time.Microsecond}
		from := st.db.Count()
		func() {
			defer func() {
				if p := recover(); p != nil {
					rec.Panicked = fmt.Sprint(p)
				}
			}()
			sys.Router.ServeHTTP(rw, req)
		}()
		cancel()
		rec.Returned = true
		rec.EndT = time.Now()
		rec.Stmts = st.db.ForScript(&res, from)
		if len(rec.Stmts) == 0 && len(st.s.Clients) <= 1 && !st.concurrent {
			rec.Stmts = st.db.Since(from)
			rec.ByPosition = len(rec.Stmts) > 0
		}
		if rec.Panicked == "" && rec.Status == 0 {
			rec.Status = 200
		}
		simrt.Yield("client:after-request")
	}
}

type sampleRun struct {
	Requests []string       `json:"requests"`
	SQL      []string       `json:"sql_statements"`
	Faults   map[string]int `json:"faults_fired"`
	Steps    int64          `json:"scheduler_grants"`
	SimTime  string         `json:"simulated_time"`
}

func (st *runState) finish(ri *simcheck.RunInfo, sim *simrt.Sim, t0 time.Time, timedOut bool) {
	var leaked []string
	if !isKilled(sim) {
		leaked = requestGoroutines(sim)
	}
	alive := fmt.Sprint(requestGoroutines(sim))
	sim.Kill()
	sim.WaitStopped()
	synctest.Wait()
	add := func(p, oracle, sig, detail string) {
		ri.Violations = append(ri.Violations, &simcheck.Violation{Property: p, Oracle: oracle, Signature: sig, Detail: detail})
	}
	st.mu.Lock()
	defer st.mu.Unlock()
	for _, c := range sim.Crashes {
		add("C12", "process-crash", "unrecovered panic in goroutine started at "+c.Role+": "+trimNum(c.Value)+" @ "+firstFrame(c.Stack),
			fmt.Sprintf("goroutine %s (%s) panicked with %q and nothing recovered it: the reader process terminates. requests: %v\n%s", c.Goroutine, c.Role, c.Value, st.paths(), c.Stack))
	}
	if sim.Livelock != "" {
		add("C12", "livelock", "livelock: "+trimNum(sim.Livelock), sim.Livelock)
	}
	for _, mr := range sim.MapRaces {
		// two goroutines inside one Go map at the same instant abort the process ("concurrent map read and map write")
		add("C12", "unguarded-shared-map", "shared map accessed without its lock: "+trimNum(mr), mr+". requests: "+fmt.Sprint(st.paths()))
	}
	crashed := len(sim.Crashes) > 0 || sim.Livelock != ""
	faulty := false
	var reqLines, sqls []string
	for _, r := range st.reqs {
		reqLines = append(reqLines, fmt.Sprintf("req%d %s status=%d body=%dB stmts=%d", r.ID, r.Path, r.Status, r.Body.Len(), len(r.Stmts)))
		for _, s := range r.Stmts {
			if len(sqls) < 6 && s.Class == "data" {
				sqls = append(sqls, s.SQL)
			}
		}
		if r.Req.Result.ErrAtRow > 0 || r.Req.Result.StallAtRow > 0 || r.Req.Result.QueryErr || r.Req.CancelUs > 0 || r.Req.NoDB || st.s.ConnErrs > 0 {
			faulty = true
		}
		if r.Panicked != "" {
			add("C12", "handler-panic", "panic escaped the handler: "+trimNum(r.Panicked), fmt.Sprintf("req%d %s: %q", r.ID, r.Path, r.Panicked))
		}
		if !r.Returned {
			if !crashed {
				add("C12", "request-blocked", "request never returned: "+r.Req.Kind, fmt.Sprintf("req%d %s did not return within the bound %v (simulated now %v); goroutines of requests still alive: %s; result script %+v", r.ID, r.Path, reqBound(r.Req), time.Since(t0), alive, r.Req.Result))
			}
			continue
		}
		if r.Req.CancelUs > 0 && r.Cancelled {
			gone := r.StartT.Add(time.Duration(r.Req.CancelUs) * time.Microsecond)
			n := time.Duration(r.Req.Result.Series*r.Req.Result.RowsPer + 1)
			allow := 5*time.Second + 2*n*time.Duration(r.Req.Result.RowLatencyUs+r.Req.WriteUs)*time.Microsecond + time.Duration(r.Req.Result.QueryDelayUs)*time.Microsecond
			if late := r.EndT.Sub(gone); late > allow {
				add("C12", "client-gone-not-released", "request keeps running long after the client went away: "+r.Req.Kind,
					fmt.Sprintf("req%d %s: the client went away at +%v, the handler returned %v later (allowed %v); result script %+v", r.ID, r.Path, time.Duration(r.Req.CancelUs)*time.Microsecond, late, allow, brief(r.Req.Result)))
			}
		}
		// a handler that calls WriteHeader again after it began to answer (an error or a recovered panic after
		// streaming started) has still answered once - net/http drops the late header. C12 asks for a response,
		// not for a tidy one: counted, not judged.
		if len(r.Statuses) > 1 {
			ri.Probes["late-second-writeheader"]++
		}
		st.checkDocument(r, add)
	}
	if st.promVals > 0 {
		ri.Probes["promql-selector-value-compared"] += st.promVals
	}
	if st.bigSeen > 0 {
		ri.Probes["otlp-json-span-int-attribute-compared"] += st.bigSeen
	}
	if len(leaked) == 0 && !crashed && !timedOut {
		// every request has ended and its goroutines are gone: a result set that is still open will never be closed;
		// it keeps its connection out of the bounded pool, and once the pool is empty read requests wait forever
		if open := st.db.OpenStatements(); len(open) > 0 {
			sql := open[0].SQL
			if len(sql) > 90 {
				sql = sql[:90]
			}
			add("C12", "result-set-left-open", "a result set is never closed: "+reDigits.ReplaceAllString(sql, "N"),
				fmt.Sprintf("all requests returned and their goroutines ended, but %d result sets are still open (first: %.300q); requests: %v", len(open), open[0].SQL, st.paths()))
		}
	}
	if len(leaked) > 0 && !crashed && !timedOut {
		add("C12", "goroutine-leak", "goroutine started for a request still alive after it ended: "+siteOnly(leaked[0]),
			fmt.Sprintf("all requests returned and 35 s of grace passed, but %d request goroutines are still alive: %v; requests: %v", len(leaked), leaked, st.paths()))
	}
	for k, v := range st.db.Fired {
		ri.Faults[k] += v
	}
	for _, r := range st.reqs {
		if r.Cancelled {
			ri.Faults["client-went-away"]++
		}
		if r.Req.WriteUs > 0 {
			ri.Faults["slow-consumer"]++
		}
		ri.Probes["status-"+fmt.Sprint(r.Status/100)+"xx"]++
		ri.Probes["endpoint-"+r.Req.Kind]++
		ri.Probes[fmt.Sprintf("%s-%dxx", r.Req.Kind, r.Status/100)]++
		if os.Getenv("VERIF_DEBUG") == "sql" {
			for _, q := range r.Stmts {
				fmt.Fprintf(os.Stderr, "DBGSQL %s status=%d cols=%v :: %s\n", r.Req.Kind, r.Status, q.Cols, q.SQL)
			}
			fmt.Fprintf(os.Stderr, "DBGBODY %s status=%d %.600q\n", r.Req.Kind, r.Status, r.Body.String())
			if f := os.Getenv("VERIF_DEBUG_BODY"); f != "" {
				os.WriteFile(f, r.Body.Bytes(), 0o644)
			}
		}
		if os.Getenv("VERIF_DEBUG") != "" && r.Status >= 500 {
			var errs []string
			for _, s := range r.Stmts {
				if s.Err != "" {
					errs = append(errs, s.Err)
				}
			}
			fmt.Printf("DBG5xx %s status=%d body=%.200q stmts=%d errs=%v\n", r.Path, r.Status, r.Body.String(), len(r.Stmts), errs)
		}
		for _, s := range r.Stmts {
			if s.Aborted {
				ri.Probes["rows-closed-before-end"]++
			}
		}
		// the row limit is reached early: the scan behind an in-process pipeline must stop soon after (the SQL of
		// such a query carries no LIMIT; cancelling the context is the only thing that ends the work)
		if lim, err := strconv.Atoi(r.Req.Limit); err == nil && lim > 0 && (r.Req.Kind == "query_range") && r.Status == 200 &&
			r.Req.CancelUs == 0 && !r.Req.NoDB && everyRowPasses(r.Req.Query) && r.Req.Result.ErrAtRow == 0 && r.Req.Result.StallAtRow == 0 && !r.Req.Result.QueryErr {
			total := r.Req.Result.Series * r.Req.Result.RowsPer
			for _, s := range r.Stmts {
				if s.Class == "data" && len(s.Cols) >= 3 && total >= 4*lim+2000 {
					ri.Probes["limit-reached-early"]++
					if s.Served > lim+(total-lim)/2 {
						add("C12", "work-continues-after-limit", "the scan goes on although the row limit was reached: "+classOfQuery(r.Req.Query),
							fmt.Sprintf("req%d %s: limit %d, the database holds %d matching rows; %d rows were fetched before the request ended (no stage drops rows)", r.ID, r.Path, lim, total, s.Served))
					}
				}
			}
		}
	}
	h := fnv.New64a()
	fmt.Fprintf(h, "%x|%d", sim.TraceHash(), st.db.Count())
	ri.Hash = h.Sum64()
	ri.Steps = sim.Steps
	if sim.Resumes > 0 {
		ri.Probes["woke-outside-the-baton-and-requeued"] += int(sim.Resumes)
	}
	ri.SimNanos = int64(time.Since(t0))
	ri.NonTrivial = faulty || sim.Multi > 0
	if sim.Preempts > 0 {
		ri.Faults["sched-preempt-between-sync-ops"] += int(sim.Preempts)
	}
	if len(reqLines) > 10 {
		reqLines = reqLines[:10]
	}
	ri.Sample = sampleRun{Requests: reqLines, SQL: sqls, Faults: st.db.Fired, Steps: sim.Steps, SimTime: time.Since(t0).String()}
}

func (st *runState) paths() []string {
	var p []string
	for _, r := range st.reqs {
		p = append(p, r.Path)
	}
	return p
}

var rePromSelector = regexp.MustCompile(`^[a-zA-Z_:][a-zA-Z0-9_:]*(\{[^{}]*\})?$|^\{[^{}]*\}$`)

// checkDocument is the C15 oracle: a 200 response of a log/metric query endpoint served without a
// database or client fault must be one JSON document of the documented shape that contains
// every served row exactly once, grouped under one object per label set.
func (st *runState) checkDocument(r *reqRec, add func(p, oracle, sig, detail string)) {
	rq := r.Req
	if r.Status >= 500 && !r.Cancelled && rq.Result.ErrAtRow == 0 && rq.Result.StallAtRow == 0 && !rq.Result.QueryErr && !rq.NoDB && st.s.ConnErrs == 0 &&
		rq.Result.NullAtRow == 0 && (rq.Result.TraceShape == 0 || rq.Result.TraceShape == 5) && !rq.Mutated && !rq.Faulty && r.Panicked == "" {
		// the database answered every statement of a well-formed request with rows, nothing failed, and the client is told
		// "server error": the rows are in no document at all
		served, aborted := 0, false
		for _, s := range r.Stmts {
			if s.Class == "data" {
				served += s.Served
				aborted = aborted || s.Aborted || s.Err != ""
			}
		}
		if served > 0 && !aborted {
			body := r.Body.String()
			if len(body) > 120 {
				body = body[:120]
			}
			add("C15", "rows-answered-with-server-error", "served rows are answered with a server error instead of a document: "+rq.Kind+" "+classOfQuery(rq.Query),
				fmt.Sprintf("req%d %s: %d rows served without any fault, status %d, body %q; result script %+v", r.ID, r.Path, served, r.Status, body, brief(rq.Result)))
		}
		return
	}
	if rq.Faulty && rq.Result.NullAtRow > 0 {
		switch rq.Kind {
		case "labels", "label_values", "prom_labels", "prom_label_values", "tags", "tag_values", "tags_v2", "tag_values_v2", "series", "prom_series":
			// (a NULL among the values of a list is a result-set shape the list endpoints are judged on)
		default:
			return // a row that cannot be scanned in the middle of a streamed result is a database fault
		}
	}
	if r.Status != 200 || r.Cancelled || rq.Result.ErrAtRow > 0 || rq.Result.StallAtRow > 0 || rq.Result.QueryErr || rq.NoDB || st.s.ConnErrs > 0 {
		return
	}
	switch rq.Kind {
	case "query_range", "query", "labels", "label_values", "series", "prom_labels", "prom_label_values", "prom_series", "prom_range", "prom_instant", "tags", "tag_values", "tags_v2", "tag_values_v2", "search",
		"trace", "trace_json", "prof_types", "prof_label_names", "prof_label_values", "prof_select_series", "prof_merge", "prof_series", "prof_merge_profiles", "render_diff":
	default:
		return
	}
	var doc any
	dec := json.NewDecoder(bytes.NewReader(r.Body.Bytes()))
	if err := dec.Decode(&doc); err != nil {
		add("C15", "not-json", "response body is not a JSON document: "+rq.Kind, fmt.Sprintf("req%d %s: %v; body=%.300q; result script %+v", r.ID, r.Path, err, r.Body.String(), brief(rq.Result)))
		return
	}
	if dec.More() {
		add("C15", "trailing-data", "response body has data after the JSON document: "+rq.Kind, fmt.Sprintf("req%d %s body=%.300q", r.ID, r.Path, r.Body.String()))
		return
	}
	switch rq.Kind {
	case "labels", "label_values", "prom_labels", "prom_label_values", "tags", "tag_values", "tags_v2", "tag_values_v2", "series", "prom_series":
		// list endpoints: every served string exactly once, in the order served
		var data []*sqlfake.Stmt
		for _, s := range r.Stmts {
			if s.Class == "data" && len(s.Cols) == 1 {
				data = append(data, s)
			}
		}
		if len(data) != 1 || data[0].Aborted {
			return
		}
		var got []string
		if m, ok := doc.(map[string]any); ok {
			for _, key := range []string{"data", "tagNames", "tagValues"} {
				if arr, ok := m[key].([]any); ok {
					for _, v := range arr {
						if obj, isObj := v.(map[string]any); isObj {
							if tv, ok := obj["value"]; ok && rq.Kind == "tag_values_v2" {
								got = append(got, fmt.Sprint(tv))
								continue
							}
							// series endpoints: one label set per element; compared as documents
							c, _ := json.Marshal(obj)
							got = append(got, string(c))
							continue
						}
						got = append(got, fmt.Sprint(v))
					}
				}
			}
		}
		if m, ok := doc.(map[string]any); ok {
			if scopes, ok := m["scopes"].([]any); ok {
				for _, sc := range scopes {
					scm, _ := sc.(map[string]any)
					tags, _ := scm["tags"].([]any)
					for _, tg := range tags {
						got = append(got, fmt.Sprint(tg))
					}
				}
			}
		}
		want := append([]string(nil), data[0].Strings...)
		if rq.Kind == "series" || rq.Kind == "prom_series" {
			for i, w := range want {
				var obj map[string]any
				if json.Unmarshal([]byte(w), &obj) == nil {
					c, _ := json.Marshal(obj)
					want[i] = string(c)
				}
			}
		}
		if len(got) != len(want) {
			add("C15", "list-differs", "label/tag list differs from the rows served: "+rq.Kind, fmt.Sprintf("req%d %s: served %d values %.200q, document has %d: %.200q", r.ID, r.Path, len(want), want, len(got), got))
			return
		}
		for i := range want {
			if got[i] != want[i] {
				add("C15", "list-differs", "label/tag list differs from the rows served: "+rq.Kind, fmt.Sprintf("req%d %s: element %d served %q, document has %q", r.ID, r.Path, i, want[i], got[i]))
				return
			}
		}
		return
	}
	if rq.Kind == "trace" || rq.Kind == "trace_json" {
		// every stored span of the trace appears once
		var data []*sqlfake.Stmt
		for _, s := range r.Stmts {
			if s.Class == "data" {
				data = append(data, s)
			}
		}
		m, ok := doc.(map[string]any)
		if len(data) != 1 || data[0].Aborted || !ok || (rq.Result.TraceShape != 0 && rq.Result.TraceShape != 5) {
			return
		}
		n := 0
		ids := map[string]int{}
		names := map[string]int{}
		rss, _ := m["resourceSpans"].([]any)
		for _, rs := range rss {
			rsm, _ := rs.(map[string]any)
			for _, key := range []string{"instrumentationLibrarySpans", "scopeSpans"} {
				ils, _ := rsm[key].([]any)
				for _, il := range ils {
					ilm, _ := il.(map[string]any)
					sps, _ := ilm["spans"].([]any)
					for _, sp := range sps {
						n++
						if spm, ok := sp.(map[string]any); ok {
							ids[fmt.Sprint(spm["spanId"])]++
							names[fmt.Sprint(spm["name"])]++
							// integer attributes are rendered without loss (OTLP JSON writes int64 as a string)
							var idx int
							if _, err := fmt.Sscanf(fmt.Sprint(spm["name"]), "op%d", &idx); err == nil && rq.Result.TraceShape == 5 && idx%2 == 1 {
								attrs, _ := spm["attributes"].([]any)
								for _, a := range attrs {
									am, _ := a.(map[string]any)
									if am["key"] != "big" {
										continue
									}
									vm, _ := am["value"].(map[string]any)
									// (the document carries the number as intValue or, as this server renders every attribute, as text)
									var raw any
									for _, k := range []string{"intValue", "stringValue", "doubleValue"} {
										if vm[k] != nil {
											raw = vm[k]
											break
										}
									}
									got := fmt.Sprint(raw)
									if f, isNum := raw.(float64); isNum {
										got = strconv.FormatFloat(f, 'f', -1, 64)
									}
									st.bigSeen++
									if want := sqlfake.BigInts[idx%len(sqlfake.BigInts)]; got != want {
										add("C15", "value-altered", "an integer attribute of a span is not rendered as it was stored: "+rq.Kind,
											fmt.Sprintf("req%d %s: span op%d attribute big stored as %s, rendered as %s", r.ID, r.Path, idx, want, got))
									}
								}
							}
						}
					}
				}
			}
		}
		for i := 0; i < data[0].Served && n == data[0].Served; i++ {
			// the stored spans are named op0, op1, ...: each of them is in the document under its own name
			if names[fmt.Sprintf("op%d", i)] != 1 {
				add("C15", "span-altered", "a stored span is missing from the trace document or rendered under another name: "+rq.Kind,
					fmt.Sprintf("req%d %s: span op%d occurs %d times among the %d spans of the document", r.ID, r.Path, i, names[fmt.Sprintf("op%d", i)], n))
				break
			}
		}
		if n != data[0].Served {
			add("C15", "span-count-differs", "trace document does not hold every stored span once: "+rq.Kind,
				fmt.Sprintf("req%d %s: %d spans served, %d in the document (distinct ids %d)", r.ID, r.Path, data[0].Served, n, len(ids)))
		}
		return
	}
	if m, ok := doc.(map[string]any); ok && m["status"] == "success" && !rq.Result.Interleave {
		// whatever the pipeline: a stream is one object
		if d, ok := m["data"].(map[string]any); ok && d["resultType"] == "streams" {
			res, _ := d["result"].([]any)
			objs := map[string]int{}
			total := 0
			for _, o := range res {
				om, _ := o.(map[string]any)
				sm, _ := om["stream"].(map[string]any)
				lm := map[string]string{}
				for k, v := range sm {
					lm[k] = fmt.Sprint(v)
				}
				objs[labelKey(lm)]++
				vals, _ := om["values"].([]any)
				total += len(vals)
			}
			// whatever the pipeline: its stages drop or rewrite entries, none makes two of one - the document cannot hold
			// more entries than rows were fetched
			var dstm []*sqlfake.Stmt
			for _, s := range r.Stmts {
				if s.Class == "data" {
					dstm = append(dstm, s)
				}
			}
			if len(dstm) == 1 && !dstm[0].Aborted && total > dstm[0].Served {
				add("C15", "entry-duplicated", "the document holds more entries than rows were served: "+rq.Kind,
					fmt.Sprintf("req%d %s: %d rows served by the database, %d entries in %d stream objects", r.ID, r.Path, dstm[0].Served, total, len(res)))
			}
			for k, n := range objs {
				if n > 1 && !passThrough(rq.Query) {
					sig := "one label set is returned as several stream objects (query with in-process stages)"
					if total >= 3000 {
						sig = "one label set is returned as several stream objects (in-process log query returning thousands of entries)"
					}
					add("C15", "stream-split", sig, fmt.Sprintf("req%d %s: label set %s appears in %d objects; the document holds %d entries in %d objects", r.ID, r.Path, k, n, total, len(res)))
					break
				}
			}
		}
	}
	if rq.Kind == "prom_range" || rq.Kind == "prom_instant" || ((rq.Kind == "query_range" || rq.Kind == "query") && !passThrough(rq.Query)) {
		// metric results: shape, one object per series, timestamps; served values where ClickHouse computes everything
		if m, ok := doc.(map[string]any); ok && m["status"] == "success" {
			if d, ok := m["data"].(map[string]any); ok && (d["resultType"] == "matrix" || d["resultType"] == "vector") {
				st.checkMatrix(r, d, add)
			}
		}
		return
	}
	if rq.Kind != "query_range" && rq.Kind != "query" {
		return
	}
	// only the pure ClickHouse path serves the scripted rows unchanged; the data statement must be the only one
	var data []*sqlfake.Stmt
	for _, s := range r.Stmts {
		if s.Class == "data" {
			data = append(data, s)
		}
	}
	if len(data) != 1 || !passThrough(rq.Query) {
		return
	}
	m, _ := doc.(map[string]any)
	d, _ := m["data"].(map[string]any)
	if m["status"] != "success" || d == nil {
		add("C15", "wrong-shape", "response lacks status/data: "+rq.Kind, fmt.Sprintf("req%d %s body=%.300q", r.ID, r.Path, r.Body.String()))
		return
	}
	if d["resultType"] == "matrix" || d["resultType"] == "vector" {
		st.checkMatrix(r, d, add)
		return
	}
	if d["resultType"] != "streams" {
		return
	}
	res, ok := d["result"].([]any)
	if !ok {
		add("C15", "wrong-shape", "data.result is not an array: "+rq.Kind, fmt.Sprintf("req%d %s body=%.300q", r.ID, r.Path, r.Body.String()))
		return
	}
	served := rq.Result.Rows()
	if data[0].Served < len(served) {
		served = served[:data[0].Served]
	}
	want := map[string]int{}
	perSet := map[string]bool{}
	for _, row := range served {
		want[fmt.Sprintf("%s|%d|%s", labelKey(row.Labels), row.TsNs, row.Line)]++
		perSet[labelKey(row.Labels)] = true
	}
	got := map[string]int{}
	objs := map[string]int{}
	for _, o := range res {
		om, _ := o.(map[string]any)
		sm, ok1 := om["stream"].(map[string]any)
		vals, ok2 := om["values"].([]any)
		if !ok1 || !ok2 {
			add("C15", "wrong-shape", "result element lacks stream/values", fmt.Sprintf("req%d %s element=%v body=%.300q", r.ID, r.Path, o, r.Body.String()))
			return
		}
		lm := map[string]string{}
		for k, v := range sm {
			lm[k] = fmt.Sprint(v)
		}
		objs[labelKey(lm)]++
		for _, v := range vals {
			pair, _ := v.([]any)
			if len(pair) != 2 {
				add("C15", "wrong-shape", "value is not a [timestamp, line] pair", fmt.Sprintf("req%d %s value=%v", r.ID, r.Path, v))
				return
			}
			got[fmt.Sprintf("%s|%v|%v", labelKey(lm), pair[0], pair[1])]++
		}
	}
	limited := rq.Limit != "" && rq.Limit != "0"
	for k, n := range want {
		if got[k] != n && !(limited && got[k] < n) {
			add("C15", "row-lost-or-duplicated", "a served row does not appear exactly once in the response",
				fmt.Sprintf("req%d %s: row %.120q served %d times, returned %d times; %d rows served, result script %+v; body=%.400q", r.ID, r.Path, k, n, got[k], len(served), brief(rq.Result), r.Body.String()))
			return
		}
	}
	for k, n := range got {
		if want[k] < n {
			add("C15", "row-lost-or-duplicated", "the response contains a row the database did not serve", fmt.Sprintf("req%d %s: row %.120q returned %d times, served %d", r.ID, r.Path, k, n, want[k]))
			return
		}
	}
	if !rq.Result.Interleave {
		for k, n := range objs {
			if n > 1 {
				add("C15", "stream-split", "one label set is returned as several stream objects",
					fmt.Sprintf("req%d %s: label set %s appears in %d objects; result script %+v", r.ID, r.Path, k, n, brief(rq.Result)))
				return
			}
		}
	}
}

// checkMatrix: a metric result served entirely by ClickHouse goes through the zero-eater and the step
// filler only, so every series object must be unique per label set, every value must be one of the
// values served for that series, rendered without loss, and every timestamp a plain number.
func (st *runState) checkMatrix(r *reqRec, d map[string]any, add func(p, oracle, sig, detail string)) {
	rq := r.Req
	res, ok := d["result"].([]any)
	if !ok {
		add("C15", "wrong-shape", "data.result is not an array: "+rq.Kind, fmt.Sprintf("req%d %s body=%.300q", r.ID, r.Path, r.Body.String()))
		return
	}
	served := map[string]map[string]bool{}
	for _, row := range rq.Result.Rows() {
		k := labelKey(row.Labels)
		if served[k] == nil {
			served[k] = map[string]bool{}
		}
		served[k][strconv.FormatFloat(row.Value, 'f', -1, 64)] = true
	}
	// the served values reach the encoder unchanged only when one data statement produced the whole result
	nd := 0
	for _, s := range r.Stmts {
		if s.Class == "data" {
			nd++
		}
	}
	oneData := nd == 1
	seen := map[string]int{}
	for _, o := range res {
		om, _ := o.(map[string]any)
		mm, ok := om["metric"].(map[string]any)
		if !ok {
			add("C15", "wrong-shape", "matrix/vector element lacks metric", fmt.Sprintf("req%d %s element=%v", r.ID, r.Path, o))
			return
		}
		lm := map[string]string{}
		for k, v := range mm {
			lm[k] = fmt.Sprint(v)
		}
		k := labelKey(lm)
		seen[k]++
		var vals []any
		if vs, ok := om["values"].([]any); ok {
			vals = vs
		} else if v, ok := om["value"].([]any); ok {
			vals = []any{v}
		} else {
			add("C15", "wrong-shape", "matrix/vector element lacks values", fmt.Sprintf("req%d %s element=%v", r.ID, r.Path, o))
			return
		}
		prevT := math.Inf(-1)
		for _, v := range vals {
			pair, _ := v.([]any)
			if t, ok := pair0(pair); ok {
				// the points of one series are one per evaluation instant: a timestamp that repeats or goes back
				// was rendered with loss (or a point was emitted twice)
				if t <= prevT {
					add("C15", "timestamp-altered", "timestamps of one series are not strictly increasing: "+rq.Kind,
						fmt.Sprintf("req%d %s (step=%s): series %s has timestamp %v after %v", r.ID, r.Path, rq.Step, k, t, prevT))
					return
				}
				prevT = t
			}
			if len(pair) != 2 {
				add("C15", "wrong-shape", "sample is not a [time, value] pair", fmt.Sprintf("req%d %s sample=%v", r.ID, r.Path, v))
				return
			}
			if _, ok := pair[0].(float64); !ok {
				add("C15", "wrong-shape", "sample time is not a number", fmt.Sprintf("req%d %s sample=%v", r.ID, r.Path, v))
				return
			}
			sv, ok := pair[1].(string)
			if !ok {
				add("C15", "wrong-shape", "sample value is not a string", fmt.Sprintf("req%d %s sample=%v", r.ID, r.Path, v))
				return
			}
			// (a PromQL query that is nothing but a selector returns, at every instant, a sample of the series as it was served)
			promSel := (rq.Kind == "prom_range" || rq.Kind == "prom_instant") && !rq.Mutated && rePromSelector.MatchString(strings.TrimSpace(rq.Query))
			if promSel && served[k] != nil {
				st.promVals++
			}
			if (((rq.Kind == "query_range" || rq.Kind == "query") && passThroughMetric(rq.Query) && oneData) || promSel) && served[k] != nil && !served[k][sv] {
				if f, err := strconv.ParseFloat(sv, 64); err != nil || !served[k][strconv.FormatFloat(f, 'f', -1, 64)] {
					add("C15", "value-altered", "a numeric value is not rendered as it was served",
						fmt.Sprintf("req%d %s: series %s carries %q; values served for that series: %v", r.ID, r.Path, k, sv, keysOfBool(served[k])))
					return
				}
			}
		}
	}
	if !rq.Result.Interleave {
		for k, n := range seen {
			if n > 1 {
				add("C15", "stream-split", "one label set is returned as several series objects", fmt.Sprintf("req%d %s: label set %s appears in %d objects", r.ID, r.Path, k, n))
				return
			}
		}
	}
}

func pair0(pair []any) (float64, bool) {
	if len(pair) != 2 {
		return 0, false
	}
	t, ok := pair[0].(float64)
	return t, ok
}

func keysOfBool(m map[string]bool) []string {
	var r []string
	for k := range m {
		r = append(r, k)
	}
	sort.Strings(r)
	if len(r) > 12 {
		r = r[:12]
	}
	return r
}

// passThroughMetric: a range aggregation that ClickHouse computes completely (no json/logfmt/line_format split,
// no outer operator), so the served values reach the encoder unchanged apart from step filling.
func passThroughMetric(q string) bool {
	q = strings.TrimSpace(q)
	for _, fn := range []string{"rate(", "count_over_time(", "bytes_rate(", "bytes_over_time("} {
		if strings.HasPrefix(q, fn) && !strings.Contains(q, "| json") && !strings.Contains(q, "| logfmt") && !strings.Contains(q, "line_format") && strings.HasSuffix(q, "])") {
			return true
		}
	}
	return false
}

// passThrough reports whether a LogQL query is a plain selector (no line filter, no stage), so
// that the response must carry exactly the served rows.
func passThrough(q string) bool {
	q = strings.TrimSpace(q)
	return strings.HasPrefix(q, "{") && strings.HasSuffix(q, "}") && strings.Count(q, "{") == 1
}

func brief(r sqlfake.Result) string {
	return fmt.Sprintf("{series=%d rows_per=%d fp0=%v interleave=%v lines=%d}", r.Series, r.RowsPer, r.FpZeroFirst, r.Interleave, len(r.Lines))
}

func labelKey(m map[string]string) string {
	ks := make([]string, 0, len(m))
	for k := range m {
		ks = append(ks, k)
	}
	sort.Strings(ks)
	var b strings.Builder
	for _, k := range ks {
		fmt.Fprintf(&b, "%q=%q,", k, m[k])
	}
	return b.String()
}

func firstFrame(stack string) string {
	lines := strings.Split(stack, "\n")
	for i, l := range lines {
		if strings.HasPrefix(l, "github.com/metrico/qryn/") && !strings.Contains(l, "zz_verif") && i+1 < len(lines) {
			fn := l
			if j := strings.LastIndex(fn, "("); j > 0 {
				fn = fn[:j]
			}
			return strings.TrimPrefix(fn, "github.com/metrico/qryn/")
		}
	}
	return "?"
}

func trimNum(s string) string {
	var b strings.Builder
	for _, r := range s {
		if r >= '0' && r <= '9' {
			continue
		}
		b.WriteRune(r)
	}
	if b.Len() > 120 {
		return b.String()[:120]
	}
	return b.String()
}

func siteOnly(s string) string {
	if i := strings.Index(s, "("); i >= 0 {
		return s[i:]
	}
	return s
}

// everyRowPasses: a log query whose in-process pipeline keeps every row (one extraction or formatting stage, no filter).
func everyRowPasses(q string) bool {
	q = strings.TrimSpace(q)
	i := strings.Index(q, "}")
	if !strings.HasPrefix(q, "{") || i < 0 || strings.Count(q, "{") != strings.Count(q, "}") {
		return false
	}
	switch strings.TrimSpace(q[i+1:]) {
	case "| json", "| logfmt", `| line_format "{{.app}} {{.series}}"`:
		return true
	}
	return false
}

var reDigits = regexp.MustCompile(`[0-9]+`)
