// Package sqlfake is the query face of the simulated ClickHouse: a
// database/sql driver that never interprets SQL. It records every statement,
// recognises the two bookkeeping statements of dbVersion, and serves every
// other statement with the result set the scenario scripted, with faults
// (connect error, query error, error or stall at row k, per-row latency).
package sqlfake

import (
	"context"
	"database/sql"
	"database/sql/driver"
	"encoding/base64"
	"encoding/json"
	"errors"
	"fmt"
	"io"
	"regexp"
	"sort"
	"strings"
	"sync"
	"time"

	"github.com/metrico/qryn/reader/prof"
	"github.com/metrico/qryn/zz_verif/simrt"
	otlpCommon "go.opentelemetry.io/proto/otlp/common/v1"
	otlpTrace "go.opentelemetry.io/proto/otlp/trace/v1"
	"google.golang.org/protobuf/proto"
)

// Result is a scripted result set.
type Result struct {
	Series       int                 `json:"series"`          // number of distinct label sets
	RowsPer      int                 `json:"rows_per"`        // rows per series
	FpZeroFirst  bool                `json:"fp_zero_first"`   // first series has fingerprint 0
	Interleave   bool                `json:"interleave"`      // rows of different series interleaved instead of grouped
	ErrAtRow     int                 `json:"err_at_row"`      // k>0: the driver fails instead of serving the k-th row (1-based); 0 = never
	StallAtRow   int                 `json:"stall_at_row"`    // k>0: the driver blocks instead of serving the k-th row until the context ends; 0 = never
	RowLatencyUs int64               `json:"row_latency_us"`  // simulated latency per row
	QueryErr     bool                `json:"query_err"`       // the statement fails at once
	QueryDelayUs int64               `json:"query_delay_us"`  // latency before the first row
	Lines        []string            `json:"lines,omitempty"` // explicit line texts (cycled); default generated
	Values       []float64           `json:"values,omitempty"`
	StepNs       int64               `json:"step_ns"` // timestamp distance between rows of a series
	BaseNs       int64               `json:"base_ns"`
	Desc         bool                `json:"desc"` // newest first
	LabelSets    []map[string]string `json:"label_sets,omitempty"`
	CtrlBytes    bool                `json:"ctrl_bytes,omitempty"` // generated lines carry control bytes
	Complexity   int64               `json:"complexity,omitempty"` // value served for the TraceQL complexity estimate
	Explicit     []Row               `json:"-"`                    // rows given by the harness at run time (C09)
	// ProfShape selects what the Pyroscope tables return: 0 a well-formed profile tree / type ids; 1 a self-loop in the
	// tree; 2 a cycle across levels; 3 the same node twice under one parent; 4 nodes whose function is unknown;
	// 5 negative self/total; 6 sample_type_unit with one element; 7 type_id without its colons; 8 empty tree
	ProfShape int `json:"prof_shape,omitempty"`
	// TraceShape selects what tempo_traces holds: 0 spans as the writer stores them; 1 some rows with an empty payload
	// (the ndjson Zipkin decoder before fix abfd578 stored such rows); 2 payload types the reader does not know;
	// 3 payloads that are neither JSON nor a protobuf span; 4 Zipkin spans whose parentId is not a 64-bit hex id;
	// 5 OTLP spans stored as JSON with integer attributes beyond 2^53
	TraceShape int `json:"trace_shape,omitempty"`
	// NullAtRow k>0: the k-th row (1-based) carries a NULL: the value of a single-column statement (label names, values,
	// tags), the last text column of a wider one
	NullAtRow int `json:"null_at_row,omitempty"`
}

// Row is one served row in harness terms.
type Row struct {
	Series int
	Fp     uint64
	Labels map[string]string
	TsNs   int64
	Line   string
	Value  float64
}

// BigInts are the values of the attribute "big" of JSON-stored OTLP spans (TraceShape 5), by span index.
var BigInts = []string{"9007199254740993", "1734436231582466049", "9223372036854775807", "-9007199254740995", "7"}

// Rows materialises the result set.
func (r *Result) Rows() []Row {
	if r.Explicit != nil {
		return r.Explicit
	}
	var out []Row
	step := r.StepNs
	if step == 0 {
		step = 1000000
	}
	for s := 0; s < r.Series; s++ {
		fp := uint64(1000 + s*7919)
		if s == 0 && r.FpZeroFirst {
			fp = 0
		}
		lbl := map[string]string{"series": fmt.Sprintf("s%d", s), "app": "x"}
		if s < len(r.LabelSets) {
			lbl = r.LabelSets[s]
		}
		for i := 0; i < r.RowsPer; i++ {
			ts := r.BaseNs + int64(i)*step
			if r.Desc {
				ts = r.BaseNs + int64(r.RowsPer-1-i)*step
			}
			line := fmt.Sprintf("line s%d i%d \"quoted\" \\ back\tTab é", s, i)
			if r.CtrlBytes {
				line += []string{" \x1b[31mred\x1b[0m", " nul\x00", " del\x7f", " bell\a", " vt\v", " \u2028 \ufffd", " </script>"}[(s+i)%7]
			}
			if len(r.Lines) > 0 {
				line = r.Lines[(s*r.RowsPer+i)%len(r.Lines)]
			}
			val := float64(s*1000+i) + 0.25
			if len(r.Values) > 0 {
				val = r.Values[(s*r.RowsPer+i)%len(r.Values)]
			}
			out = append(out, Row{Series: s, Fp: fp, Labels: lbl, TsNs: ts, Line: line, Value: val})
		}
	}
	if r.Interleave && r.Series > 1 {
		var il []Row
		for i := 0; i < r.RowsPer; i++ {
			for s := 0; s < r.Series; s++ {
				il = append(il, out[s*r.RowsPer+i])
			}
		}
		out = il
	}
	return out
}

// Stmt is one recorded statement.
type Stmt struct {
	Strings []string // values served by a single-column statement (label lists)
	Script  *Result  // request-scoped script the statement ran under (identifies the request)
	SQL     string
	Cols    []string
	Class   string
	Served  int
	Err     string
	StartT  time.Time
	EndT    time.Time
	Aborted bool
}

// DB is the state of the query face for one run.
type DB struct {
	mu         sync.Mutex
	Stmts      []*Stmt
	script     []Result // consumed in order by data statements; the last one repeats
	next       int
	ConnectErr int // number of connection attempts to refuse
	Fired      map[string]int
	Tables     []string
	Versions   map[string]string
	OpenRows   int
	open       map[*Stmt]bool
}

// OpenStatements lists the data statements whose result set was opened and never closed (each one keeps a
// connection of the pool checked out).
func (db *DB) OpenStatements() []*Stmt {
	db.mu.Lock()
	defer db.mu.Unlock()
	var res []*Stmt
	for _, s := range db.Stmts {
		if db.open[s] {
			res = append(res, s)
		}
	}
	return res
}

func NewDB(script []Result) *DB {
	return &DB{script: script, Fired: map[string]int{}, Tables: []string{"time_series", "samples_v3", "metrics_15s", "tempo_traces"}, Versions: map[string]string{}}
}

type scriptKey struct{}

// WithScript attaches the result set to serve to the statements issued under ctx
// (request-scoped, so that concurrent clients do not see each other's scripts).
func WithScript(ctx context.Context, r *Result) context.Context {
	return context.WithValue(ctx, scriptKey{}, r)
}

// SetScript installs the result set served to the data statements that follow.
func (db *DB) SetScript(r Result) {
	db.mu.Lock()
	db.script = []Result{r}
	db.next = 0
	db.mu.Unlock()
}

// ForScript returns the statements issued under the request-scoped script r (all statements after
// the first n when the request's context was not propagated to any statement).
func (db *DB) ForScript(r *Result, n int) []*Stmt {
	db.mu.Lock()
	defer db.mu.Unlock()
	var res []*Stmt
	for _, s := range db.Stmts[n:] {
		if s.Script == r {
			res = append(res, s)
		}
	}
	return res
}

// Count returns the number of statements seen so far.
func (db *DB) Count() int { db.mu.Lock(); defer db.mu.Unlock(); return len(db.Stmts) }

// Since returns the statements recorded after the first n.
func (db *DB) Since(n int) []*Stmt {
	db.mu.Lock()
	defer db.mu.Unlock()
	return append([]*Stmt(nil), db.Stmts[n:]...)
}

var reOrderFp = regexp.MustCompile(`(?i)ORDER BY\s+(?:\w+\.)?fingerprint\s+(asc|desc)`)

func hasCol(cols []string, c string) bool {
	for _, x := range cols {
		if x == c {
			return true
		}
	}
	return false
}

var reOrderTs = regexp.MustCompile(`(?i)ORDER BY[^()]*?timestamp_ns\s+(asc|desc)`)

var (
	reVersion = regexp.MustCompile(`(?is)FROM\s+settings(_dist)?\s+WHERE\s+type='update'`)
	reShow    = regexp.MustCompile(`(?i)^\s*SHOW TABLES`)
)

// Projection returns the output column names of the outermost SELECT.
func Projection(q string) []string {
	depth := 0
	inq := false
	up := strings.ToUpper(q)
	start := -1
	// find the last top-level SELECT that is followed by a top-level FROM (WITH clauses come first)
	type span struct{ s, e int }
	var sel []span
	cur := -1
	for i := 0; i < len(q); i++ {
		ch := q[i]
		switch {
		case inq:
			if ch == '\\' {
				i++
			} else if ch == '\'' {
				inq = false
			}
		case ch == '\'':
			inq = true
		case ch == '(':
			depth++
		case ch == ')':
			depth--
		case depth == 0 && strings.HasPrefix(up[i:], "SELECT") && (i == 0 || !isIdent(q[i-1])) && (i+6 >= len(q) || !isIdent(q[i+6])):
			cur = i + 6
		case depth == 0 && cur >= 0 && strings.HasPrefix(up[i:], "FROM") && !isIdent(q[i-1]) && (i+4 >= len(q) || !isIdent(q[i+4])):
			sel = append(sel, span{cur, i})
			cur = -1
		}
	}
	_ = start
	if cur >= 0 {
		// a top-level SELECT without FROM: "SELECT (select ...) as a, (select ...) as b"
		sel = append(sel, span{cur, len(q)})
	}
	if len(sel) == 0 {
		return nil
	}
	list := q[sel[0].s:sel[0].e]
	list = strings.TrimSpace(list)
	if strings.HasPrefix(strings.ToUpper(list), "DISTINCT") {
		list = list[8:]
	}
	var cols []string
	for _, item := range splitTop(list) {
		item = strings.TrimSpace(item)
		if item == "" {
			continue
		}
		// alias after the last top-level " as "
		name := item
		if i := lastTopAs(item); i >= 0 {
			name = item[i+4:]
		} else {
			f := strings.Fields(item)
			name = f[len(f)-1]
			if j := strings.LastIndex(name, "."); j >= 0 && !strings.ContainsAny(name, "()") {
				name = name[j+1:]
			}
		}
		cols = append(cols, strings.Trim(strings.TrimSpace(name), "`\""))
	}
	return cols
}

func isIdent(c byte) bool {
	return c == '_' || (c >= 'a' && c <= 'z') || (c >= 'A' && c <= 'Z') || (c >= '0' && c <= '9')
}

func splitTop(s string) []string {
	var res []string
	depth, start := 0, 0
	inq := false
	for i := 0; i < len(s); i++ {
		ch := s[i]
		switch {
		case inq:
			if ch == '\\' {
				i++
			} else if ch == '\'' {
				inq = false
			}
		case ch == '\'':
			inq = true
		case ch == '(' || ch == '[':
			depth++
		case ch == ')' || ch == ']':
			depth--
		case ch == ',' && depth == 0:
			res = append(res, s[start:i])
			start = i + 1
		}
	}
	return append(res, s[start:])
}

func lastTopAs(s string) int {
	depth := 0
	inq := false
	last := -1
	low := strings.ToLower(s)
	for i := 0; i < len(s); i++ {
		ch := s[i]
		switch {
		case inq:
			if ch == '\\' {
				i++
			} else if ch == '\'' {
				inq = false
			}
		case ch == '\'':
			inq = true
		case ch == '(' || ch == '[':
			depth++
		case ch == ')' || ch == ']':
			depth--
		case depth == 0 && strings.HasPrefix(low[i:], " as "):
			last = i
		}
	}
	return last
}

// ---- database/sql plumbing

type connector struct{ db *DB }

func (c connector) Connect(ctx context.Context) (driver.Conn, error) {
	c.db.mu.Lock()
	defer c.db.mu.Unlock()
	if c.db.ConnectErr > 0 {
		c.db.ConnectErr--
		c.db.Fired["connect-error"]++
		return nil, errors.New("dial tcp: connection refused (injected)")
	}
	return &conn{db: c.db}, nil
}
func (c connector) Driver() driver.Driver { return drv{} }

type drv struct{}

func (drv) Open(string) (driver.Conn, error) { return nil, errors.New("use the connector") }

// Open returns a *sql.DB on the simulated database.
func (db *DB) Open() *sql.DB {
	d := sql.OpenDB(connector{db})
	d.SetMaxIdleConns(2)
	return d
}

type conn struct{ db *DB }

func (c *conn) Prepare(q string) (driver.Stmt, error) {
	return nil, errors.New("prepare not supported")
}
func (c *conn) Close() error              { return nil }
func (c *conn) Begin() (driver.Tx, error) { return nil, errors.New("tx not supported") }
func (c *conn) ExecContext(ctx context.Context, q string, args []driver.NamedValue) (driver.Result, error) {
	c.db.mu.Lock()
	c.db.Stmts = append(c.db.Stmts, &Stmt{SQL: q, Class: "exec", StartT: time.Now(), EndT: time.Now()})
	c.db.mu.Unlock()
	return driver.RowsAffected(0), nil
}

func (c *conn) QueryContext(ctx context.Context, q string, args []driver.NamedValue) (driver.Rows, error) {
	db := c.db
	st := &Stmt{SQL: q, StartT: time.Now()}
	db.mu.Lock()
	db.Stmts = append(db.Stmts, st)
	db.mu.Unlock()
	switch {
	case reVersion.MatchString(q):
		st.Class = "version"
		var data [][]driver.Value
		for k, v := range db.Versions {
			data = append(data, []driver.Value{k, v})
		}
		return &rows{db: db, st: st, cols: []string{"_name", "_value"}, lit: data, ctx: ctx}, nil
	case reShow.MatchString(q):
		st.Class = "show-tables"
		var data [][]driver.Value
		for _, t := range db.Tables {
			data = append(data, []driver.Value{t})
		}
		return &rows{db: db, st: st, cols: []string{"name"}, lit: data, ctx: ctx}, nil
	}
	st.Class = "data"
	st.Cols = Projection(q)
	if r, ok := ctx.Value(scriptKey{}).(*Result); ok {
		st.Script = r
	}
	db.mu.Lock()
	var res Result
	if r, ok := ctx.Value(scriptKey{}).(*Result); ok && r != nil {
		res = *r
	} else if len(db.script) > 0 {
		i := db.next
		if i >= len(db.script) {
			i = len(db.script) - 1
		}
		res = db.script[i]
		db.next++
	}
	db.mu.Unlock()
	if res.QueryDelayUs > 0 {
		if err := sleepCtx(ctx, time.Duration(res.QueryDelayUs)*time.Microsecond); err != nil {
			st.Err = err.Error()
			return nil, err
		}
	}
	simrt.Yield("sqlfake.Query")
	if res.QueryErr {
		db.mu.Lock()
		db.Fired["query-error"]++
		db.mu.Unlock()
		st.Err = "code: 62, message: Syntax error (injected)"
		st.EndT = time.Now()
		return nil, errors.New(st.Err)
	}
	if len(st.Cols) == 0 {
		st.Cols = []string{"c0"}
	}
	db.mu.Lock()
	db.OpenRows++
	if db.open == nil {
		db.open = map[*Stmt]bool{}
	}
	db.open[st] = true
	db.mu.Unlock()
	data := res.Rows()
	if res.Explicit != nil {
		// rows given by the harness are returned in the order the statement asks for
		data = append([]Row(nil), data...)
		if m := reOrderTs.FindAllStringSubmatch(q, -1); len(m) > 0 {
			desc := strings.EqualFold(m[len(m)-1][1], "desc")
			sort.SliceStable(data, func(i, j int) bool {
				if desc {
					return data[i].TsNs > data[j].TsNs
				}
				return data[i].TsNs < data[j].TsNs
			})
		}
	}
	if m := reOrderFp.FindAllStringSubmatch(q, -1); len(m) > 0 && hasCol(st.Cols, "timestamp_ms") {
		// the PromQL adapter's statement asks for its samples series by series (ORDER BY fingerprint, timestamp_ms) and
		// relies on it: rows of one series interleaved with another's are not a result set this statement can have
		data = append([]Row(nil), data...)
		desc := strings.EqualFold(m[len(m)-1][1], "desc")
		sort.SliceStable(data, func(i, j int) bool {
			if desc {
				return data[i].Fp > data[j].Fp
			}
			return data[i].Fp < data[j].Fp
		})
	}
	if len(st.Cols) == 1 && st.Cols[0] == "_count" && len(data) > 1 {
		// the complexity estimate of a TraceQL request is one aggregate row, whatever the tables hold
		data = data[:1]
	}
	if res.Complexity > 0 && len(st.Cols) == 1 && len(data) == 0 {
		data = []Row{{}}
	}
	return &rows{db: db, st: st, cols: st.Cols, res: res, data: data, ctx: ctx, sql: q}, nil
}

func sleepCtx(ctx context.Context, d time.Duration) error {
	t := time.NewTimer(d + simrt.Skew())
	defer t.Stop()
	select {
	case <-t.C:
		return nil
	case <-ctx.Done():
		return ctx.Err()
	}
}

type rows struct {
	db     *DB
	st     *Stmt
	cols   []string
	lit    [][]driver.Value
	res    Result
	data   []Row
	pos    int
	ctx    context.Context
	sql    string
	closed bool
}

func (r *rows) Columns() []string { return r.cols }
func (r *rows) Close() error {
	if !r.closed {
		r.closed = true
		r.st.EndT = time.Now()
		if r.lit == nil {
			r.db.mu.Lock()
			r.db.OpenRows--
			delete(r.db.open, r.st)
			if r.pos < len(r.data) {
				r.st.Aborted = true
			}
			r.db.mu.Unlock()
		}
	}
	return nil
}

// ValueFor types a column by its name; the reader scans by position into Go types that
// database/sql can only fill from the right driver value kinds.
func ValueFor(col, sqlText string, row Row, idx int, ncols int, res *Result) driver.Value {
	if res.Complexity > 0 && ncols == 1 && (strings.Contains(strings.ToLower(col), "complexity") || strings.Contains(strings.ToLower(col), "count")) {
		return res.Complexity
	}
	c := strings.ToLower(col)
	if strings.Contains(sqlText, "tempo_traces") {
		// realistic stored spans: FixedString(16)/FixedString(8) ids, payload as the writer stores it
		tid := fmt.Sprintf("T%015d", row.Series)
		sid := fmt.Sprintf("S%07d", idx%10000000)
		if strings.Contains(sqlText, "root_service_name") {
			// TraceQL search result: one row per trace, the matched spans as parallel arrays
			n := 1 + idx%3
			switch c {
			case "trace_id":
				// (the statement selects lower(hex(trace_id)): 32 hex digits)
				return fmt.Sprintf("%032x", idx+1)
			case "span_id":
				ids := make([]string, n)
				for i := range ids {
					ids[i] = fmt.Sprintf("S%07d", (idx*7+i)%10000000)
				}
				return ids
			case "duration":
				v := make([]int64, n)
				for i := range v {
					v[i] = int64(1000 * (i + 1))
				}
				return v
			case "timestamp_ns":
				v := make([]int64, n)
				for i := range v {
					v[i] = row.TsNs + int64(i)
				}
				return v
			case "start_time_unix_nano":
				return row.TsNs
			case "duration_ms":
				return float64(idx) + 0.5
			case "root_service_name":
				return []string{"svc", "sv\"c", "s\x1bvc"}[idx%3]
			case "root_trace_name":
				return fmt.Sprintf("op%d", idx)
			}
		}
		switch c {
		case "trace_id":
			return tid
		case "span_id":
			return sid
		case "parent_id":
			if idx%2 == 0 {
				return ""
			}
			return fmt.Sprintf("S%07d", (idx-1)%10000000)
		case "payload_type":
			if res.TraceShape == 2 && idx%3 == 1 {
				return int64([]int{0, 3, -1}[idx%3])
			}
			return int64(1 + idx%2)
		case "payload":
			switch {
			case res.TraceShape == 1 && idx%3 != 2:
				return ""
			case res.TraceShape == 3 && idx%2 == 0:
				return `{"traceId": 12, "tags": [`
			case res.TraceShape == 3:
				return "\x0a\xff\xff\xff\xff\x0fnot a span"
			}
			if idx%2 == 0 {
				// every other Zipkin span has a parent; shape 4: parent ids no 64-bit id looks like (too long, odd, not hex)
				parent := ""
				if idx%4 == 2 {
					parent = `"parentId":"00000000000000a1",`
				}
				if res.TraceShape == 4 {
					parent = `"parentId":"` + []string{"000102030405060708090a0b0c0d0e0f", "abc", "zzzzzzzzzzzzzzzz", "0000000000000000000000000000000000a1"}[(idx/2)%4] + `",`
				}
				return fmt.Sprintf(`{"traceId":"%x","id":"%x",%s"name":"op%d","timestamp":%d,"duration":5,"localEndpoint":{"serviceName":"svc"},"tags":{"a":"b","n":"%d"},"annotations":[{"timestamp":1,"value":"e"}]}`, tid, sid, parent, idx, row.TsNs/1000, idx)
			}
			if res.TraceShape == 5 {
				// an OTLP span stored as JSON (what the Node.js writer stored), with integer attributes beyond 2^53
				return fmt.Sprintf(`{"traceId":%q,"spanId":%q,"name":"op%d","kind":1,"startTimeUnixNano":"%d","endTimeUnixNano":"%d","attributes":[{"key":"service.name","value":{"stringValue":"svc"}},{"key":"big","value":{"intValue":"%s"}},{"key":"small","value":{"intValue":"42"}}]}`,
					base64.StdEncoding.EncodeToString([]byte(tid)), base64.StdEncoding.EncodeToString([]byte(sid)), idx, row.TsNs, row.TsNs+5000, BigInts[idx%len(BigInts)])
			}
			sp := &otlpTrace.Span{TraceId: []byte(tid), SpanId: []byte(sid), Name: fmt.Sprintf("op%d", idx), StartTimeUnixNano: uint64(row.TsNs), EndTimeUnixNano: uint64(row.TsNs + 5000),
				Attributes: []*otlpCommon.KeyValue{{Key: "service.name", Value: &otlpCommon.AnyValue{Value: &otlpCommon.AnyValue_StringValue{StringValue: "svc"}}}}}
			b, _ := proto.Marshal(sp)
			return string(b)
		}
	}
	if strings.Contains(sqlText, "profiles") {
		if v, ok := profValue(c, row, idx, ncols, res); ok {
			return v
		}
	}
	switch c {
	case "fingerprint", "fp":
		return row.Fp
	case "labels":
		if ncols == 2 && strings.Contains(sqlText, "JSONExtractKeysAndValues") {
			var kv [][]interface{}
			for k, v := range row.Labels {
				kv = append(kv, []interface{}{k, v})
			}
			return kv
		}
		if ncols == 1 {
			// the series endpoints select the stored label document (a JSON string) and pass it on verbatim
			b, _ := json.Marshal(row.Labels)
			return string(b)
		}
		return row.Labels
	case "string", "payload", "line":
		return row.Line
	case "timestamp_ms":
		// (milliseconds: the PromQL adapter reads this column; served as nanoseconds every sample lay in the far future
		// and no PromQL query ever returned a point)
		return row.TsNs / 1000000
	case "timestamp_ns", "ts", "start_time_unix_nano", "starttimeunixnano":
		return row.TsNs
	case "value":
		return row.Value
	case "val":
		if strings.Contains(sqlText, "time_series_gin") || strings.Contains(sqlText, "tempo_traces_kv") || strings.Contains(sqlText, "tempo_traces_attrs_gin") {
			if res.CtrlBytes {
				return fmt.Sprintf("v%d%s", idx, []string{"", " \"q\"", "\\", "\x1b[0m", "\x00", "é\u2028", "<&>"}[idx%7])
			}
			return fmt.Sprintf("v%d", idx)
		}
		return row.Value
	case "_count", "count", "cnt", "complexity":
		return int64(idx + 1)
	case "duration_ns", "duration", "payload_type":
		return int64(1)
	case "duration_ms":
		return float64(1.5)
	}
	if res.CtrlBytes {
		return fmt.Sprintf("%s-%d%s", c, idx, []string{"", " \"q\"", "\\", "\x1b[0m", "\x00", "é\u2028", "<&>"}[idx%7])
	}
	return fmt.Sprintf("%s-%d", c, idx)
}

func (r *rows) Next(dest []driver.Value) error {
	if r.lit != nil {
		if r.pos >= len(r.lit) {
			return io.EOF
		}
		copy(dest, r.lit[r.pos])
		r.pos++
		return nil
	}
	if r.res.ErrAtRow > 0 && r.pos == r.res.ErrAtRow-1 {
		r.db.mu.Lock()
		r.db.Fired["error-at-row"]++
		r.db.mu.Unlock()
		r.st.Err = "code: 241, message: Memory limit exceeded while reading (injected)"
		return errors.New(r.st.Err)
	}
	if r.res.StallAtRow > 0 && r.pos == r.res.StallAtRow-1 {
		r.db.mu.Lock()
		r.db.Fired["stall-at-row"]++
		r.db.mu.Unlock()
		// never park under database/sql's locks without a way out: the context always ends the stall
		select {
		case <-r.ctx.Done():
			return r.ctx.Err()
		case <-time.After(30 * time.Second):
			return errors.New("read timeout (injected)")
		}
	}
	if r.pos >= len(r.data) {
		return io.EOF
	}
	if r.res.RowLatencyUs > 0 {
		if err := sleepCtx(r.ctx, time.Duration(r.res.RowLatencyUs)*time.Microsecond); err != nil {
			return err
		}
	}
	row := r.data[r.pos]
	for i, c := range r.cols {
		dest[i] = ValueFor(c, r.sql, row, r.pos, len(r.cols), &r.res)
	}
	if r.res.NullAtRow > 0 && r.pos == r.res.NullAtRow-1 {
		if len(r.cols) == 1 {
			dest[0] = nil
		} else {
			// a NULL in the last text column of the row (a row the reader's Scan cannot convert)
			for i := len(dest) - 1; i >= 0; i-- {
				if _, ok := dest[i].(string); ok {
					dest[i] = nil
					break
				}
			}
		}
	}
	if len(r.cols) == 1 && len(r.st.Strings) < 100000 {
		if sv, ok := dest[0].(string); ok {
			r.st.Strings = append(r.st.Strings, sv)
		}
	}
	r.pos++
	r.st.Served = r.pos
	return nil
}

// ---- Pyroscope tables: typed values (tuples and arrays arrive as []any / [][]any from clickhouse-go)

func profValue(c string, row Row, idx, ncols int, res *Result) (driver.Value, bool) {
	switch c {
	case "type_id":
		if res.ProfShape == 7 {
			return "process_cpu", true
		}
		return "process_cpu:cpu:nanoseconds", true
	case "sample_type_unit", "__sample_types_units":
		if res.ProfShape == 6 {
			return []any{"cpu"}, true
		}
		return []any{[]string{"cpu", "wall", "alloc_objects"}[idx%3], "nanoseconds"}, true
	case "tags":
		return [][]any{{"service_name", "x"}, {"a", fmt.Sprintf("v%d", row.Series)}, {"quote", "q\"\\\x7f"}}, true
	case "labels":
		var kv [][]any
		for _, k := range sortedKeys(row.Labels) {
			kv = append(kv, []any{k, row.Labels[k]})
		}
		return kv, true
	case "timestamp_ms":
		return row.TsNs / 1000000, true
	case "_tree":
		return profTree(res), true
	case "payload":
		return profPayload(res, idx), true
	case "_functions":
		fns := [][]any{{uint64(1), "main"}, {uint64(2), "a \"quoted\" fn"}, {uint64(3), "leaf\x00"}}
		if res.ProfShape == 4 {
			fns = fns[:1]
		}
		return fns, true
	}
	return nil, false
}

func profTree(res *Result) [][]any {
	n := func(parent, fn, node uint64, self, total int64) []any { return []any{parent, fn, node, self, total} }
	tree := [][]any{n(0, 1, 100, 0, 10), n(100, 2, 200, 3, 10), n(200, 3, 300, 7, 7), n(100, 3, 400, 1, 1)}
	switch res.ProfShape {
	case 1:
		tree = append(tree, n(300, 3, 300, 1, 1))
	case 2:
		tree = append(tree, n(300, 1, 100, 1, 1), n(200, 1, 100, 1, 1))
	case 3:
		tree = append(tree, n(100, 2, 200, 5, 5), n(100, 2, 200, 6, 6))
	case 5:
		tree = append(tree, n(100, 2, 500, -5, -9))
	case 8:
		return [][]any{}
	}
	for i := 0; i < res.Series; i++ {
		tree = append(tree, n(300, 2, uint64(1000+i), int64(i), int64(i)))
	}
	return tree
}

func sortedKeys(m map[string]string) []string {
	ks := make([]string, 0, len(m))
	for k := range m {
		ks = append(ks, k)
	}
	sort.Strings(ks)
	return ks
}

// profPayload is a stored pprof profile (SelectMergeProfile merges them).
func profPayload(res *Result, idx int) []byte {
	p := &prof.Profile{
		StringTable: []string{"", "cpu", "nanoseconds", "main", "leaf", "file.go"},
		SampleType:  []*prof.ValueType{{Type: 1, Unit: 2}},
		PeriodType:  &prof.ValueType{Type: 1, Unit: 2},
		Period:      10000000,
		Mapping:     []*prof.Mapping{{Id: 1, Filename: 5}},
		Function:    []*prof.Function{{Id: 1, Name: 3, Filename: 5}, {Id: 2, Name: 4, Filename: 5}},
		Location: []*prof.Location{{Id: 1, MappingId: 1, Line: []*prof.Line{{FunctionId: 1, Line: 10}}},
			{Id: 2, MappingId: 1, Line: []*prof.Line{{FunctionId: 2, Line: 20}}}},
		Sample:    []*prof.Sample{{LocationId: []uint64{2, 1}, Value: []int64{int64(idx + 1)}}, {LocationId: []uint64{1}, Value: []int64{3}}},
		TimeNanos: 946684800000000000 + int64(idx),
	}
	switch res.ProfShape {
	case 1, 2:
		// references outside the tables
		p.Sample = append(p.Sample, &prof.Sample{LocationId: []uint64{99}, Value: []int64{1}})
		p.Location = append(p.Location, &prof.Location{Id: 3, MappingId: 7, Line: []*prof.Line{{FunctionId: 42}}})
	case 4:
		p.Function[1].Name = 77
	case 5:
		p.SampleType[0].Type = 50
		p.Sample[0].Value = []int64{-1, 2, 3}
	case 6:
		p.PeriodType = nil
	case 7:
		return []byte("\x0a\xff\xff\xff\xff\x0fgarbage that is not a profile")
	case 8:
		return []byte{}
	}
	b, err := proto.Marshal(p)
	if err != nil {
		return nil
	}
	return b
}
